------------------------------ MODULE WireReq ------------------------------
(***************************************************************************)
(* Reference definition of the REQUEST side of the CQL native protocol,    *)
(* versions 1-5, written from native_protocol_v1.spec .. v5.spec (not from *)
(* the driver).  Property C03.                                             *)
(*                                                                         *)
(*   DecodeRequest(b, ver, opt)   total, index-threaded reference decoder  *)
(*   EncodeRequest(L, ver, opt)   reference encoder (generator, self-test) *)
(*   Verdict(rec, opt)            the C03 decision for one recorded vector *)
(*   SummaryVerdict(s)            the decision for a 65535/65536 summary   *)
(*                                                                         *)
(* Bytes are integers 0..255; every string / byte string of a logical      *)
(* request is a sequence of bytes; maps are sequences of <<key, value>>    *)
(* pairs that are compared as sets (functions).  Positions are 1-based     *)
(* indexes of the next unread byte; `e` is the index of the last byte.     *)
(*                                                                         *)
(* Version 5 reference ("v5 as implemented" in the property text): the     *)
(* legacy (v3/v4) frame header - no v5 segment framing, no CRC - with the  *)
(* USE_BETA header flag 0x10, and the v5 message bodies: [int] (4 byte)    *)
(* flags in QUERY / EXECUTE / BATCH, WITH_KEYSPACE 0x80 (+ [string]        *)
(* keyspace after the timestamp), PREPARE <query><flags:[int]>[<keyspace>].*)
(* The final v5 EXECUTE carries <result_metadata_id> ([short bytes])       *)
(* between the statement id and the query parameters; the beta drafts the  *)
(* driver follows did not.  opt.mid selects the layout; Verdict accepts    *)
(* either (without: "as implemented"; with: final specification).          *)
(* NOW_IN_SECONDS 0x100 (final v5) is understood by the decoder.           *)
(***************************************************************************)
EXTENDS Integers, Sequences, FiniteSets

Ok(p, v)  == [ok |-> TRUE,  p |-> p, v |-> v,    why |-> "ok"]
Bad(p, w) == [ok |-> FALSE, p |-> p, v |-> <<>>, why |-> w]

Bit(x, m) == (x \div m) % 2 = 1
ToSet(s) == {s[i] : i \in 1 .. Len(s)}

(***************************************************************************)
(* Primitive readers (section 3 "Notations" of every version).             *)
(***************************************************************************)
RdByte(b, p, e)  == IF p <= e THEN Ok(p + 1, b[p]) ELSE Bad(p, "truncated-byte")
RdShort(b, p, e) == IF p + 1 <= e THEN Ok(p + 2, b[p] * 256 + b[p + 1]) ELSE Bad(p, "truncated-short")
\* [int]: signed, big endian.  Computed so that no intermediate leaves 32 bits.
RdInt(b, p, e) ==
  IF p + 3 <= e
  THEN Ok(p + 4, (IF b[p] >= 128 THEN b[p] - 256 ELSE b[p]) * 16777216 + b[p + 1] * 65536 + b[p + 2] * 256 + b[p + 3])
  ELSE Bad(p, "truncated-int")
RdRaw(b, p, e, n) == IF n >= 0 /\ n <= e - p + 1 THEN Ok(p + n, SubSeq(b, p, p + n - 1)) ELSE Bad(p, "truncated-data")
\* [long]: kept as its 8 bytes (TLC integers are 32 bit)
RdLong(b, p, e) == RdRaw(b, p, e, 8)

RdString(b, p, e) == LET n == RdShort(b, p, e) IN IF ~n.ok THEN n ELSE RdRaw(b, n.p, e, n.v)
RdShortBytes(b, p, e) == RdString(b, p, e)
RdLongString(b, p, e) ==
  LET n == RdInt(b, p, e) IN
  IF ~n.ok THEN n ELSE IF n.v < 0 THEN Bad(p, "negative-long-string") ELSE RdRaw(b, n.p, e, n.v)

\* [bytes]: n < 0 is null
RdBytes(b, p, e) ==
  LET n == RdInt(b, p, e) IN
  IF ~n.ok THEN n
  ELSE IF n.v < 0 THEN Ok(n.p, [nul |-> 1, b |-> <<>>])
  ELSE LET d == RdRaw(b, n.p, e, n.v) IN IF ~d.ok THEN d ELSE Ok(d.p, [nul |-> 0, b |-> d.v])

\* [value] (v4+): -1 null, -2 not set, < -2 invalid.  Before v4 a bound value is a
\* [bytes]: every negative length is null.
RdValue(b, p, e, ver) ==
  LET n == RdInt(b, p, e) IN
  IF ~n.ok THEN n
  ELSE IF n.v >= 0 THEN LET d == RdRaw(b, n.p, e, n.v) IN IF ~d.ok THEN d ELSE Ok(d.p, [k |-> "val", b |-> d.v])
  ELSE IF ver < 4 \/ n.v = -1 THEN Ok(n.p, [k |-> "null", b |-> <<>>])
  ELSE IF n.v = -2 THEN Ok(n.p, [k |-> "unset", b |-> <<>>])
  ELSE Bad(p, "value-length-below-minus-2")

RECURSIVE RdStringsN(_, _, _, _, _)
RdStringsN(b, p, e, n, acc) ==
  IF n = 0 THEN Ok(p, acc)
  ELSE LET s == RdString(b, p, e) IN IF ~s.ok THEN s ELSE RdStringsN(b, s.p, e, n - 1, Append(acc, s.v))
RdStringList(b, p, e) == LET n == RdShort(b, p, e) IN IF ~n.ok THEN n ELSE RdStringsN(b, n.p, e, n.v, <<>>)

RECURSIVE RdStringPairsN(_, _, _, _, _)
RdStringPairsN(b, p, e, n, acc) ==
  IF n = 0 THEN Ok(p, acc)
  ELSE LET k == RdString(b, p, e) IN
       IF ~k.ok THEN k
       ELSE LET v == RdString(b, k.p, e) IN
            IF ~v.ok THEN v ELSE RdStringPairsN(b, v.p, e, n - 1, Append(acc, <<k.v, v.v>>))
RdStringMap(b, p, e) == LET n == RdShort(b, p, e) IN IF ~n.ok THEN n ELSE RdStringPairsN(b, n.p, e, n.v, <<>>)

RECURSIVE RdBytesPairsN(_, _, _, _, _)
RdBytesPairsN(b, p, e, n, acc) ==
  IF n = 0 THEN Ok(p, acc)
  ELSE LET k == RdString(b, p, e) IN
       IF ~k.ok THEN k
       ELSE LET v == RdBytes(b, k.p, e) IN
            IF ~v.ok THEN v ELSE RdBytesPairsN(b, v.p, e, n - 1, Append(acc, <<k.v, v.v>>))
RdBytesMap(b, p, e) == LET n == RdShort(b, p, e) IN IF ~n.ok THEN n ELSE RdBytesPairsN(b, n.p, e, n.v, <<>>)

\* <n> values, each preceded by a [string] name when `named`
RECURSIVE RdValuesN(_, _, _, _, _, _, _)
RdValuesN(b, p, e, ver, named, n, acc) ==
  IF n = 0 THEN Ok(p, acc)
  ELSE LET nm == IF named THEN RdString(b, p, e) ELSE Ok(p, <<>>) IN
       IF ~nm.ok THEN nm
       ELSE LET v == RdValue(b, nm.p, e, ver) IN
            IF ~v.ok THEN v
            ELSE RdValuesN(b, v.p, e, ver, named, n - 1,
                           Append(acc, [k |-> v.v.k, b |-> v.v.b, named |-> IF named THEN 1 ELSE 0, name |-> nm.v]))
RdValueList(b, p, e, ver, named) ==
  LET n == RdShort(b, p, e) IN IF ~n.ok THEN n ELSE RdValuesN(b, n.p, e, ver, named, n.v, <<>>)

(***************************************************************************)
(* Decoded / logical request record.  One shape for every kind; a field a   *)
(* kind does not have keeps its default.                                    *)
(***************************************************************************)
NoBytes == [nul |-> 0, b |-> <<>>]
R0 == [kind |-> "", stream |-> 0, hflags |-> 0, opcode |-> 0, length |-> 0, comp |-> 0, trace |-> 0, beta |-> 0,
       payload |-> <<>>, smap |-> <<>>, slist |-> <<>>, tok |-> NoBytes, stmt |-> <<>>, pid |-> <<>>,
       rmid |-> <<>>, ks |-> <<>>, cons |-> 0, qflags |-> 0, skipmeta |-> 0, values |-> <<>>, pagesize |-> 0,
       pstate |-> NoBytes, serial |-> 0, tsset |-> 0, ts |-> <<>>, nowset |-> 0, nowsec |-> 0, pflags |-> 0,
       btype |-> 0, stmts |-> <<>>]

St(p, r) == [ok |-> TRUE, p |-> p, why |-> "ok", r |-> r]
\* run reader Rd at the current position and store its value in field f
Then(st, Rd(_), f) ==
  IF ~st.ok THEN st
  ELSE LET x == Rd(st.p) IN
       IF x.ok THEN [ok |-> TRUE, p |-> x.p, why |-> "ok", r |-> [st.r EXCEPT ![f] = x.v]]
       ELSE [ok |-> FALSE, p |-> x.p, why |-> x.why, r |-> st.r]
Fail(st, w) == IF ~st.ok THEN st ELSE [ok |-> FALSE, p |-> st.p, why |-> w, r |-> st.r]
Set(st, f, v) == IF ~st.ok THEN st ELSE [st EXCEPT !.r = [st.r EXCEPT ![f] = v]]

(***************************************************************************)
(* <query_parameters> of QUERY and EXECUTE, version 2 and later.           *)
(*   <consistency><flags>[<n>[name_1]<value_1>...][<result_page_size>]     *)
(*   [<paging_state>][<serial_consistency>][<timestamp>][<keyspace>]       *)
(*   [<now_in_seconds>]                                                    *)
(* flags: [byte] in v2-v4, [int] in v5.                                    *)
(***************************************************************************)
QueryFlagMask(ver) == CASE ver = 2 -> 31 [] ver \in {3, 4} -> 127 [] OTHER -> 511

\* v5 [int] flags: value when only the low 9 bits may be set, else -1
RdFlags(b, p, e, ver) ==
  IF ver >= 5
  THEN IF p + 3 <= e
       THEN IF b[p] = 0 /\ b[p + 1] = 0 THEN Ok(p + 4, b[p + 2] * 256 + b[p + 3]) ELSE Bad(p, "unknown-flag-bits")
       ELSE Bad(p, "truncated-flags")
  ELSE RdByte(b, p, e)

RdQueryParams(b, st0, e, ver) ==
  LET s1 == Then(st0, LAMBDA p : RdShort(b, p, e), "cons")
      s2 == Then(s1, LAMBDA p : RdFlags(b, p, e, ver), "qflags")
      fl == s2.r.qflags
      s3 == IF s2.ok /\ (fl \div (QueryFlagMask(ver) + 1)) # 0 THEN Fail(s2, "unknown-flag-bits") ELSE s2
      s4 == Set(s3, "skipmeta", IF Bit(fl, 2) THEN 1 ELSE 0)
      s5 == IF Bit(fl, 1) THEN Then(s4, LAMBDA p : RdValueList(b, p, e, ver, Bit(fl, 64)), "values") ELSE s4
      s6 == IF Bit(fl, 4) THEN Then(s5, LAMBDA p : RdInt(b, p, e), "pagesize") ELSE s5
      s7 == IF Bit(fl, 8) THEN Then(s6, LAMBDA p : RdBytes(b, p, e), "pstate") ELSE s6
      s8 == IF Bit(fl, 16) THEN Then(s7, LAMBDA p : RdShort(b, p, e), "serial") ELSE s7
      s9 == IF Bit(fl, 32) THEN Set(Then(s8, LAMBDA p : RdLong(b, p, e), "ts"), "tsset", 1) ELSE s8
      s10 == IF Bit(fl, 128) THEN Then(s9, LAMBDA p : RdString(b, p, e), "ks") ELSE s9
      s11 == IF Bit(fl, 256) THEN Set(Then(s10, LAMBDA p : RdInt(b, p, e), "nowsec"), "nowset", 1) ELSE s10
  IN s11

(***************************************************************************)
(* Message bodies (section 4.1 of each version).                           *)
(***************************************************************************)
BodyStartup(b, st, e, ver) == Then(st, LAMBDA p : RdStringMap(b, p, e), "smap")
BodyOptions(b, st, e, ver) == st
BodyAuthResponse(b, st, e, ver) == Then(st, LAMBDA p : RdBytes(b, p, e), "tok")
BodyRegister(b, st, e, ver) == Then(st, LAMBDA p : RdStringList(b, p, e), "slist")

BodyQuery(b, st, e, ver) ==
  LET s1 == Then(st, LAMBDA p : RdLongString(b, p, e), "stmt") IN
  IF ver = 1 THEN Then(s1, LAMBDA p : RdShort(b, p, e), "cons")      \* v1: <query><consistency>
  ELSE RdQueryParams(b, s1, e, ver)

BodyPrepare(b, st, e, ver) ==
  LET s1 == Then(st, LAMBDA p : RdLongString(b, p, e), "stmt") IN
  IF ver < 5 THEN s1
  ELSE LET s2 == Then(s1, LAMBDA p : RdInt(b, p, e), "pflags")
           fl == s2.r.pflags
           s3 == IF s2.ok /\ (fl < 0 \/ fl > 1) THEN Fail(s2, "unknown-flag-bits") ELSE s2
       IN IF fl = 1 THEN Then(s3, LAMBDA p : RdString(b, p, e), "ks") ELSE s3

BodyExecute(b, st, e, ver, mid) ==
  LET s1 == Then(st, LAMBDA p : RdShortBytes(b, p, e), "pid") IN
  IF ver = 1                                                         \* v1: <id><n><value_1>...<value_n><consistency>
  THEN Then(Then(s1, LAMBDA p : RdValueList(b, p, e, ver, FALSE), "values"), LAMBDA p : RdShort(b, p, e), "cons")
  ELSE LET s2 == IF ver >= 5 /\ mid THEN Then(s1, LAMBDA p : RdShortBytes(b, p, e), "rmid") ELSE s1
       IN RdQueryParams(b, s2, e, ver)

\* one BATCH entry: <kind><string_or_id><n><value_1>...<value_n>   (names are not usable: the
\* names flag is defined but "broken", CASSANDRA-10246; see the batch flags below)
RdBatchEntry(b, p, e, ver) ==
  LET k == RdByte(b, p, e) IN
  IF ~k.ok THEN k
  ELSE IF k.v \notin {0, 1} THEN Bad(p, "batch-entry-kind")
  ELSE LET q == IF k.v = 0 THEN RdLongString(b, k.p, e) ELSE RdShortBytes(b, k.p, e) IN
       IF ~q.ok THEN q
       ELSE LET vs == RdValueList(b, q.p, e, ver, FALSE) IN
            IF ~vs.ok THEN vs
            ELSE Ok(vs.p, [prep |-> k.v, stmt |-> IF k.v = 0 THEN q.v ELSE <<>>, pid |-> IF k.v = 1 THEN q.v ELSE <<>>,
                           values |-> vs.v])
RECURSIVE RdBatchEntriesN(_, _, _, _, _, _)
RdBatchEntriesN(b, p, e, ver, n, acc) ==
  IF n = 0 THEN Ok(p, acc)
  ELSE LET x == RdBatchEntry(b, p, e, ver) IN
       IF ~x.ok THEN x ELSE RdBatchEntriesN(b, x.p, e, ver, n - 1, Append(acc, x.v))
RdBatchEntries(b, p, e, ver) ==
  LET n == RdShort(b, p, e) IN IF ~n.ok THEN n ELSE RdBatchEntriesN(b, n.p, e, ver, n.v, <<>>)

\* v2: <type><n><query_1>...<query_n><consistency>
\* v3+: ... <consistency><flags>[<serial_consistency>][<timestamp>][<keyspace>][<now_in_seconds>]
BatchFlagMask(ver) == IF ver >= 5 THEN 16 + 32 + 128 + 256 ELSE 16 + 32
BodyBatch(b, st, e, ver) ==
  LET s1 == Then(st, LAMBDA p : RdByte(b, p, e), "btype")
      s2 == IF s1.ok /\ s1.r.btype \notin {0, 1, 2} THEN Fail(s1, "batch-type") ELSE s1
      s3 == Then(s2, LAMBDA p : RdBatchEntries(b, p, e, ver), "stmts")
      s4 == Then(s3, LAMBDA p : RdShort(b, p, e), "cons")
  IN IF ver = 2 THEN s4
     ELSE LET s5 == Then(s4, LAMBDA p : RdFlags(b, p, e, ver), "qflags")
              fl == s5.r.qflags
              \* every bit outside the mask, 0x40 (names) included, is an error for the server
              bad == {m \in {1, 2, 4, 8, 16, 32, 64, 128, 256} : Bit(fl, m) /\ ~Bit(BatchFlagMask(ver), m)}
              s6 == IF s5.ok /\ bad # {} THEN Fail(s5, IF 64 \in bad THEN "batch-names-flag" ELSE "unknown-flag-bits") ELSE s5
              s7 == IF Bit(fl, 16) THEN Then(s6, LAMBDA p : RdShort(b, p, e), "serial") ELSE s6
              s8 == IF Bit(fl, 32) THEN Set(Then(s7, LAMBDA p : RdLong(b, p, e), "ts"), "tsset", 1) ELSE s7
              s9 == IF Bit(fl, 128) THEN Then(s8, LAMBDA p : RdString(b, p, e), "ks") ELSE s8
              s10 == IF Bit(fl, 256) THEN Set(Then(s9, LAMBDA p : RdInt(b, p, e), "nowsec"), "nowset", 1) ELSE s9
          IN s10

(***************************************************************************)
(* Frame header (section 2): version, flags, stream, opcode, length.       *)
(*   v1/v2: 8 bytes, stream is one signed byte; v3+: 9 bytes, signed short *)
(* Request opcodes: v1 has STARTUP CREDENTIALS OPTIONS QUERY PREPARE        *)
(* EXECUTE REGISTER; v2 adds BATCH and AUTH_RESPONSE (drops CREDENTIALS).  *)
(* Header flags of a request: 0x01 compression, 0x02 tracing, 0x04 custom  *)
(* payload (v4+), 0x10 use-beta (v5).  0x08 (warning) is response only.    *)
(***************************************************************************)
\* Ruling switch.  v1 authenticates with CREDENTIALS (0x04, a [string map]); AUTH_RESPONSE (0x0F)
\* is defined from v2 on.  FALSE = the letter of native_protocol_v1.spec: opcode 0x0F in a v1
\* frame is not a v1 request.  (Cassandra 2.0/2.1 servers happen to accept it on v1 connections.)
TolerateAuthResponseInV1 == FALSE

HeaderSize(ver) == IF ver <= 2 THEN 8 ELSE 9
HeaderFlagMask(ver) == CASE ver <= 3 -> 3 [] ver = 4 -> 7 [] OTHER -> 23
KindOfOpcode(op, ver) ==
  CASE op = 1 -> "STARTUP" [] op = 5 -> "OPTIONS" [] op = 7 -> "QUERY" [] op = 9 -> "PREPARE"
    [] op = 10 -> "EXECUTE" [] op = 11 -> "REGISTER"
    [] op = 13 /\ ver >= 2 -> "BATCH" [] op = 15 /\ (ver >= 2 \/ TolerateAuthResponseInV1) -> "AUTH_RESPONSE"
    [] op \in {13, 15} -> "not-in-version"
    [] OTHER -> "unknown"

\* opt = [cmark |-> <<..>>, mid |-> BOOLEAN]: cmark is the prefix the harness's stand-in
\* compressor puts in front of a "compressed" body (the algorithms themselves are C18's).
DecodeRequest(b, ver, opt) ==
  LET hs == HeaderSize(ver)
      e == Len(b)
      bad(w) == [ok |-> FALSE, p |-> 1, why |-> w, r |-> R0]
  IN
  IF ver \notin 1 .. 5 THEN bad("version-unsupported")
  ELSE IF \E i \in 1 .. e : b[i] \notin 0 .. 255 THEN bad("not-bytes")
  ELSE IF e < hs THEN bad("header-truncated")
  ELSE IF b[1] >= 128 THEN bad("header-direction-bit")
  ELSE IF b[1] # ver THEN bad("header-version")
  ELSE IF (b[2] \div (HeaderFlagMask(ver) + 1)) # 0 \/ (ver <= 3 /\ Bit(b[2], 4)) \/ Bit(b[2], 8)
       THEN bad("header-flags-undefined-in-version")
  ELSE IF ver = 5 /\ ~Bit(b[2], 16) THEN bad("header-v5-without-beta-flag")
  ELSE
  LET flags == b[2]
      stream == IF ver <= 2 THEN (IF b[3] >= 128 THEN b[3] - 256 ELSE b[3])
                ELSE (IF b[3] >= 128 THEN b[3] - 256 ELSE b[3]) * 256 + b[4]
      op == b[hs - 4]
      len == RdInt(b, hs - 3, e).v
      kind == KindOfOpcode(op, ver)
      cm == IF Bit(flags, 1) THEN opt.cmark ELSE <<>>
      p0 == hs + 1 + Len(cm)
      r1 == [R0 EXCEPT !.kind = kind, !.stream = stream, !.hflags = flags, !.opcode = op, !.length = len,
                       !.comp = IF Bit(flags, 1) THEN 1 ELSE 0, !.trace = IF Bit(flags, 2) THEN 1 ELSE 0,
                       !.beta = IF Bit(flags, 16) THEN 1 ELSE 0]
      fail(w) == [ok |-> FALSE, p |-> 1, why |-> w, r |-> r1]
  IN
  IF len # e - hs THEN fail("header-length-differs-from-body")
  ELSE IF stream < 0 THEN fail("header-stream-negative")
  ELSE IF kind = "not-in-version" THEN fail("opcode-undefined-in-version")
  ELSE IF kind = "unknown" THEN fail("opcode-not-a-request")
  ELSE IF Bit(flags, 1) /\ kind = "STARTUP" THEN fail("startup-compressed")
  ELSE IF Len(cm) > e - hs \/ SubSeq(b, hs + 1, hs + Len(cm)) # cm THEN fail("compressed-body-without-codec-prefix")
  ELSE
  LET s0 == St(p0, r1)
      s1 == IF Bit(flags, 4) THEN Then(s0, LAMBDA p : RdBytesMap(b, p, e), "payload") ELSE s0
      s2 == CASE kind = "STARTUP" -> BodyStartup(b, s1, e, ver)
              [] kind = "OPTIONS" -> BodyOptions(b, s1, e, ver)
              [] kind = "AUTH_RESPONSE" -> BodyAuthResponse(b, s1, e, ver)
              [] kind = "REGISTER" -> BodyRegister(b, s1, e, ver)
              [] kind = "QUERY" -> BodyQuery(b, s1, e, ver)
              [] kind = "PREPARE" -> BodyPrepare(b, s1, e, ver)
              [] kind = "EXECUTE" -> BodyExecute(b, s1, e, ver, opt.mid)
              [] OTHER -> BodyBatch(b, s1, e, ver)
  IN IF s2.ok /\ s2.p # e + 1 THEN Fail(s2, "body-has-trailing-bytes") ELSE s2

(***************************************************************************)
(* Reference encoder.  Defined for requests that are expressible in `ver`; *)
(* an absent optional parameter is encoded as absent.                      *)
(***************************************************************************)
EShort(n) == <<(n \div 256) % 256, n % 256>>
EInt(n) == IF n >= 0 THEN <<n \div 16777216, (n \div 65536) % 256, (n \div 256) % 256, n % 256>>
           ELSE LET m == (n + 2147483647) + 1 IN <<128 + m \div 16777216, (m \div 65536) % 256, (m \div 256) % 256, m % 256>>
EString(s) == EShort(Len(s)) \o s
ELongString(s) == EInt(Len(s)) \o s
EBytes(x) == IF x.nul = 1 THEN EInt(-1) ELSE EInt(Len(x.b)) \o x.b
EValue(v) == CASE v.k = "null" -> EInt(-1) [] v.k = "unset" -> EInt(-2) [] OTHER -> EInt(Len(v.b)) \o v.b
RECURSIVE Cat(_)
Cat(ss) == IF ss = <<>> THEN <<>> ELSE Head(ss) \o Cat(Tail(ss))
Map(s, Op(_)) == [i \in 1 .. Len(s) |-> Op(s[i])]

AllNamed(vs) == vs # <<>> /\ \A i \in 1 .. Len(vs) : vs[i].named = 1
EValues(vs, named) == EShort(Len(vs)) \o Cat(Map(vs, LAMBDA v : (IF named THEN EString(v.name) ELSE <<>>) \o EValue(v)))
EFlags(fl, ver) == IF ver >= 5 THEN EInt(fl) ELSE <<fl>>

EQueryParams(L, ver) ==
  LET named == ver >= 3 /\ AllNamed(L.values)
      fl == (IF L.values # <<>> THEN 1 ELSE 0) + (IF L.skipmeta = 1 THEN 2 ELSE 0) + (IF L.pagesize > 0 THEN 4 ELSE 0)
            + (IF L.pstate # <<>> THEN 8 ELSE 0) + (IF L.serial # 0 THEN 16 ELSE 0)
            + (IF ver >= 3 /\ L.ts.set = 1 THEN 32 ELSE 0) + (IF named THEN 64 ELSE 0)
            + (IF ver >= 5 /\ L.ks # <<>> THEN 128 ELSE 0)
  IN EShort(L.cons) \o EFlags(fl, ver)
     \o (IF Bit(fl, 1) THEN EValues(L.values, named) ELSE <<>>)
     \o (IF Bit(fl, 4) THEN EInt(L.pagesize) ELSE <<>>)
     \o (IF Bit(fl, 8) THEN EInt(Len(L.pstate)) \o L.pstate ELSE <<>>)
     \o (IF Bit(fl, 16) THEN EShort(L.serial) ELSE <<>>)
     \o (IF Bit(fl, 32) THEN L.ts.b ELSE <<>>)
     \o (IF Bit(fl, 128) THEN EString(L.ks) ELSE <<>>)

EBatchEntry(s) == (IF s.prep = 1 THEN <<1>> \o EString(s.pid) ELSE <<0>> \o ELongString(s.stmt)) \o EValues(s.values, FALSE)

EBody(L, ver, opt) ==
  CASE L.kind = "STARTUP" -> EShort(Len(L.smap)) \o Cat(Map(L.smap, LAMBDA kv : EString(kv.k) \o EString(kv.v)))
    [] L.kind = "OPTIONS" -> <<>>
    [] L.kind = "AUTH_RESPONSE" -> EBytes(L.tok)
    [] L.kind = "REGISTER" -> EShort(Len(L.slist)) \o Cat(Map(L.slist, EString))
    [] L.kind = "QUERY" -> ELongString(L.stmt) \o (IF ver = 1 THEN EShort(L.cons) ELSE EQueryParams(L, ver))
    [] L.kind = "PREPARE" -> ELongString(L.stmt) \o
         (IF ver >= 5 THEN (IF L.ks # <<>> THEN EInt(1) \o EString(L.ks) ELSE EInt(0)) ELSE <<>>)
    [] L.kind = "EXECUTE" -> EString(L.pid) \o
         (IF ver = 1 THEN EValues(L.values, FALSE) \o EShort(L.cons)
          ELSE (IF ver >= 5 /\ opt.mid THEN EString(<<>>) ELSE <<>>) \o EQueryParams(L, ver))
    [] OTHER -> <<L.btype>> \o EShort(Len(L.stmts)) \o Cat(Map(L.stmts, EBatchEntry)) \o EShort(L.cons) \o
         (IF ver = 2 THEN <<>>
          ELSE LET fl == (IF L.serial # 0 THEN 16 ELSE 0) + (IF L.ts.set = 1 THEN 32 ELSE 0) IN
               EFlags(fl, ver) \o (IF L.serial # 0 THEN EShort(L.serial) ELSE <<>>) \o (IF L.ts.set = 1 THEN L.ts.b ELSE <<>>))

OpcodeOf(kind) == CASE kind = "STARTUP" -> 1 [] kind = "OPTIONS" -> 5 [] kind = "QUERY" -> 7 [] kind = "PREPARE" -> 9
                    [] kind = "EXECUTE" -> 10 [] kind = "REGISTER" -> 11 [] kind = "BATCH" -> 13 [] OTHER -> 15

Traceable(kind) == kind \in {"QUERY", "PREPARE", "EXECUTE", "BATCH"}
Compressible(kind) == kind \notin {"STARTUP", "OPTIONS"}

EncodeRequest(L, ver, opt) ==
  LET pl == IF L.payload # <<>>
            THEN EShort(Len(L.payload)) \o Cat(Map(L.payload, LAMBDA kv : EString(kv.k) \o EBytes(kv.v))) ELSE <<>>
      cmp == L.comp = 1 /\ Compressible(L.kind)
      body == (IF cmp THEN opt.cmark ELSE <<>>) \o pl \o EBody(L, ver, opt)
      flags == (IF cmp THEN 1 ELSE 0) + (IF L.trace = 1 THEN 2 ELSE 0) + (IF L.payload # <<>> THEN 4 ELSE 0)
               + (IF ver = 5 THEN 16 ELSE 0)
  IN <<ver, flags>> \o (IF ver <= 2 THEN <<L.stream>> ELSE EShort(L.stream)) \o <<OpcodeOf(L.kind)>> \o EInt(Len(body)) \o body

(***************************************************************************)
(* What of a logical request cannot be said in version `ver`.              *)
(***************************************************************************)
AnyNamed(vs) == \E i \in 1 .. Len(vs) : vs[i].named = 1
AnyUnset(vs) == \E i \in 1 .. Len(vs) : vs[i].k = "unset"
EntryValues(L) == IF L.kind = "BATCH" THEN Cat(Map(L.stmts, LAMBDA s : s.values)) ELSE L.values
HasParams(kind) == kind \in {"QUERY", "EXECUTE"}

Inexpressible(L, ver) ==
  LET vs == EntryValues(L) IN
    (IF ver = 1 /\ (L.kind = "BATCH" \/ (L.kind = "AUTH_RESPONSE" /\ ~TolerateAuthResponseInV1)) THEN {"opcode"} ELSE {})
    \cup (IF L.ks # <<>> /\ ver < 5 THEN {"keyspace"} ELSE {})
    \cup (IF L.payload # <<>> /\ ver < 4 THEN {"payload"} ELSE {})
    \cup (IF AnyUnset(vs) /\ ver < 4 THEN {"unset"} ELSE {})
    \cup (IF AnyNamed(vs) /\ (ver < 3 \/ L.kind = "BATCH" \/ ~AllNamed(vs)) THEN {"names"} ELSE {})
    \cup (IF L.kind = "QUERY" /\ ver = 1 /\ L.values # <<>> THEN {"values"} ELSE {})
    \cup (IF HasParams(L.kind) /\ ver = 1 /\ (L.skipmeta = 1 \/ L.pagesize > 0 \/ L.pstate # <<>>) THEN {"paging"} ELSE {})
    \cup (IF L.serial # 0 /\ ((HasParams(L.kind) /\ ver = 1) \/ (L.kind = "BATCH" /\ ver <= 2)) THEN {"serial"} ELSE {})
    \cup (IF L.ts.set = 1 /\ ver <= 2 THEN {"timestamp"} ELSE {})
    \* a [string] / [short bytes] carries at most 65535 bytes
    \cup (IF \/ Len(L.ks) > 65535 \/ Len(L.pid) > 65535
             \/ \E i \in 1 .. Len(vs) : Len(vs[i].name) > 65535
             \/ \E i \in 1 .. Len(L.payload) : Len(L.payload[i].k) > 65535
             \/ \E i \in 1 .. Len(L.smap) : Len(L.smap[i].k) > 65535 \/ Len(L.smap[i].v) > 65535
             \/ \E i \in 1 .. Len(L.slist) : Len(L.slist[i]) > 65535
             \/ \E i \in 1 .. Len(L.stmts) : Len(L.stmts[i].pid) > 65535
          THEN {"string-length"} ELSE {})

(***************************************************************************)
(* Comparison of a decoded frame D with the logical request L: the first   *)
(* field that differs, or "ok".  A part that is inexpressible in `ver` may *)
(* be absent (dropping an optional parameter is not a malformed frame);    *)
(* an unset value before v4 has no encoding, so its slot is unconstrained. *)
(***************************************************************************)
ValuesMatch(dv, lv, ver, namesOk) ==
  /\ Len(dv) = Len(lv)
  /\ \A i \in 1 .. Len(lv) :
       /\ \/ (lv[i].k = "unset" /\ ver < 4)
          \/ (dv[i].k = lv[i].k /\ dv[i].b = lv[i].b)
       /\ \/ ~namesOk                                   \* names inexpressible here: unconstrained
          \/ (dv[i].named = lv[i].named /\ dv[i].name = lv[i].name)
EntriesMatch(ds, ls, ver) ==
  /\ Len(ds) = Len(ls)
  /\ \A i \in 1 .. Len(ls) :
       /\ ds[i].prep = ls[i].prep /\ ds[i].stmt = ls[i].stmt /\ ds[i].pid = ls[i].pid
       /\ ValuesMatch(ds[i].values, ls[i].values, ver, ~AnyNamed(ls[i].values))
\* logical maps are sequences of records [k, v] (unique keys); decoded maps sequences of <<k, v>>
Pairs(lm) == {<<lm[i].k, lm[i].v>> : i \in 1 .. Len(lm)}
MapMatch(dm, lm) == /\ Cardinality({dm[i][1] : i \in 1 .. Len(dm)}) = Len(dm)      \* a function: no key twice
                    /\ ToSet(dm) = Pairs(lm)

FirstBad(checks) ==
  LET bad == {i \in 1 .. Len(checks) : ~checks[i][2]} IN
  IF bad = {} THEN "ok" ELSE checks[CHOOSE i \in bad : \A j \in bad : i <= j][1]

Compare(D, L, ver) ==
  LET qe == HasParams(L.kind)
      v2q == qe /\ ver >= 2
      namesOk == ~AnyNamed(L.values) \/ (ver >= 3 /\ AllNamed(L.values))
  IN FirstBad(<<
    <<"kind", D.kind = L.kind>>,
    <<"stream", D.stream = L.stream>>,
    <<"compress-flag-without-negotiated-compression", D.comp = 1 => L.comp = 1>>,
    <<"tracing-flag", Traceable(L.kind) => D.trace = L.trace>>,
    <<"payload", IF ver >= 4 THEN MapMatch(D.payload, L.payload) ELSE D.payload = <<>> >>,
    <<"startup-options", MapMatch(D.smap, L.smap)>>,
    \* the order of the event types carries no meaning; none may be named twice
    <<"register-events", ToSet(D.slist) = ToSet(L.slist) /\ Cardinality(ToSet(D.slist)) = Len(D.slist)>>,
    <<"auth-token", D.tok = L.tok>>,
    <<"statement", D.stmt = L.stmt>>,
    <<"prepared-id", D.pid = L.pid>>,
    <<"keyspace", D.ks = IF ver >= 5 THEN L.ks ELSE <<>> >>,
    <<"consistency", D.cons = L.cons>>,
    <<"skip-metadata", D.skipmeta = IF v2q THEN L.skipmeta ELSE 0>>,
    <<"values", IF L.kind = "QUERY" /\ ver = 1 THEN D.values = <<>>
                ELSE IF qe THEN ValuesMatch(D.values, L.values, ver, namesOk) ELSE D.values = <<>> >>,
    \* a page size <= 0 asked for by the caller means "no paging": no flag, no [int]
    <<"page-size", D.pagesize = IF v2q /\ L.pagesize > 0 THEN L.pagesize ELSE 0>>,
    <<"paging-state", IF v2q /\ L.pstate # <<>> THEN D.pstate = [nul |-> 0, b |-> L.pstate]
                      ELSE D.pstate.b = <<>> >>,
    <<"serial-consistency", D.serial = IF v2q \/ (L.kind = "BATCH" /\ ver >= 3) THEN L.serial ELSE 0>>,
    <<"timestamp", IF ver >= 3 /\ L.ts.set = 1 THEN D.tsset = 1 /\ (L.ts.now = 1 \/ D.ts = L.ts.b) ELSE D.tsset = 0>>,
    <<"now-in-seconds", D.nowset = 0>>,
    <<"batch-type", D.btype = L.btype>>,
    <<"batch-entries", EntriesMatch(D.stmts, L.stmts, ver)>>
  >>)

(***************************************************************************)
(* The decision for one recorded vector                                    *)
(*   rec = logical request fields + v, bytes, err                          *)
(* class: "ok" | "refused" (inexpressible, refused: fine) | "downgraded"   *)
(* (inexpressible part left out, frame well formed: fine) | "refused-      *)
(* expressible" (not a wire defect; reported as drift) | "malformed" |     *)
(* "mismatch" (violations).                                                *)
(***************************************************************************)
Unzipped(rec) == "unz" \in DOMAIN rec
Verdict(rec, opt) ==
  LET ver == rec.v
      inx == Inexpressible(rec, ver)
  IN
  IF rec.err # "" THEN [class |-> IF inx = {} THEN "refused-expressible" ELSE "refused", why |-> "", layout |-> ""]
  \* the caller was told the request went out (no error) but nothing was written
  ELSE IF rec.bytes = <<>> THEN [class |-> "mismatch", why |-> "nothing-sent-and-no-error", layout |-> ""]
  \* a body compressed with a real algorithm (field `unz`: the body as decompressed by the
  \* harness's trusted decompressor, `unzok` = 0 if that failed): header and length are judged on
  \* the frame as sent, the body on the decompressed bytes
  ELSE IF Unzipped(rec) /\ Len(rec.bytes) >= HeaderSize(ver) /\ Bit(rec.bytes[2], 1)
          /\ RdInt(rec.bytes, HeaderSize(ver) - 3, Len(rec.bytes)).v # Len(rec.bytes) - HeaderSize(ver)
       THEN [class |-> "malformed", why |-> "header-length-differs-from-body", layout |-> ""]
  ELSE IF Unzipped(rec) /\ Len(rec.bytes) >= HeaderSize(ver) /\ Bit(rec.bytes[2], 1) /\ rec.unzok = 0
       THEN [class |-> "malformed", why |-> "compressed-body-does-not-decompress", layout |-> ""]
  ELSE
  LET wire == IF Unzipped(rec) /\ Len(rec.bytes) >= HeaderSize(ver) /\ Bit(rec.bytes[2], 1)
              THEN SubSeq(rec.bytes, 1, HeaderSize(ver) - 4) \o EInt(Len(opt.cmark) + Len(rec.unz)) \o opt.cmark \o rec.unz
              ELSE rec.bytes
      D1 == DecodeRequest(wire, ver, [opt EXCEPT !.mid = FALSE])
      c1 == IF D1.ok THEN Compare(D1.r, rec, ver) ELSE D1.why
      try2 == ver = 5 /\ rec.kind = "EXECUTE" /\ c1 # "ok"
      D2 == IF try2 THEN DecodeRequest(wire, ver, [opt EXCEPT !.mid = TRUE]) ELSE D1
      c2 == IF try2 THEN (IF D2.ok THEN Compare(D2.r, rec, ver) ELSE D2.why) ELSE c1
      layout == IF ver = 5 /\ rec.kind = "EXECUTE" THEN (IF c1 = "ok" THEN "v5-execute-without-result-metadata-id"
                                                         ELSE IF c2 = "ok" THEN "v5-execute-with-result-metadata-id" ELSE "")
                ELSE ""
  IN
  IF c1 = "ok" \/ c2 = "ok" THEN [class |-> IF inx = {} THEN "ok" ELSE "downgraded", why |-> "", layout |-> layout]
  ELSE IF ~D1.ok THEN [class |-> "malformed", why |-> D1.why, layout |-> layout]
  ELSE [class |-> "mismatch", why |-> c1, layout |-> layout]

(***************************************************************************)
(* 65535 / 65536 boundary.  s is the run-length summary computed by the    *)
(* harness's own wire reader (trusted base): `asked` entries were asked    *)
(* for, the frame's [short] count field says `count`, `present` entries    *)
(* are really there and `exact` = 1 iff they end where the body's fixed    *)
(* tail begins.  A [short] holds at most 65535: more cannot be expressed   *)
(* and must be refused.                                                    *)
(***************************************************************************)
SummaryVerdict(s) ==
  IF s.err # "" THEN (IF s.asked > 65535 THEN "refused" ELSE "refused-expressible")
  ELSE IF s.count = s.present /\ s.exact = 1 /\ s.present = s.asked THEN "ok"
  ELSE IF s.count # s.present \/ s.exact # 1 THEN "malformed-count"
  ELSE "mismatch-count"
=============================================================================
