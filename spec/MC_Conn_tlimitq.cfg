SPECIFICATION Spec
CONSTANTS
  r1 = r1
  r2 = r2
  r3 = r3
  Req = {r1, r2}
  Sid = {1, 2}
  HasTimer = TRUE
  AllowCancel = FALSE
  AllowBuildFail = FALSE
  AllowWriteFail = FALSE
  AllowSrvClose = FALSE
  AllowSilent = TRUE
  AllowExtClose = TRUE
  MaxUnsolicited = 0
  MaxAnswers = 1
  HBReq = {}
  HBMaxFail = 1
  TimeoutLimit = 1
  Mut = "none"
INVARIANTS TypeOK NoMisroute NoReuseWhileOutstanding UniqueHold NoDupRefusal OutcomeAllowed ReleaseOnce Conservation NoLeak HBCloseJustified TimeoutCloseJustified
PROPERTIES OutcomeOnce RequestEnds CloseReturns CloseUnblocks TimeoutLimitCloses
