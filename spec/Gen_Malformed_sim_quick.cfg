CONSTANT Thorough = FALSE
CONSTANT Tier = "quick"
CONSTANT Part = 0
INIT MInit
NEXT MRandNext
INVARIANT EmitCase
CHECK_DEADLOCK FALSE
