SPECIFICATION Spec
CONSTANTS
  r1 = r1
  r2 = r2
  r3 = r3
  Req = {r1, r2}
  Sid = {1, 2}
  HasTimer = TRUE
  AllowCancel = TRUE
  AllowBuildFail = FALSE
  AllowWriteFail = TRUE
  AllowSrvClose = TRUE
  AllowSilent = TRUE
  AllowExtClose = TRUE
  MaxUnsolicited = 0
  MaxAnswers = 1
  HBReq = {r2}
  HBMaxFail = 0
  TimeoutLimit = 0
  Mut = "none"
INVARIANTS TypeOK NoMisroute NoReuseWhileOutstanding UniqueHold NoDupRefusal OutcomeAllowed ReleaseOnce Conservation NoLeak HBCloseJustified TimeoutCloseJustified
PROPERTIES OutcomeOnce RequestEnds CloseReturns CloseUnblocks HBStops
