SPECIFICATION Spec
CONSTANTS
  MaxLen = 3
  MaxNodes = 3
  MaxVnodes = 2
  NDcs = 2
  NRacks = 2
  KsIdx = {2, 3, 4, 5, 10}
  TailLen = 2
  Variants = TRUE
  Ks2 = 6
  ExtraKs = {2, 3, 4}
INVARIANTS CheckAndEmit
CHECK_DEADLOCK FALSE
