--------------------------- MODULE Gen_QueryLife ---------------------------
(* spec -> code for X02 part 2: random walks (TLC -simulate) through        *)
(* QueryLife.tla at bounds the edge dump cannot enumerate.  The walk is     *)
(* carried in `hist` and printed where it ends; every printed walk is a     *)
(* behaviour of the handle-level machine with the demanded result of every  *)
(* call and the demanded getter values after it.                            *)
EXTENDS QueryLife, Json, TLCExt

CONSTANT WalkLen
VARIABLE hist
wvars == <<vars, hist>>

WInit == Init /\ hist = <<>>
WNext == /\ Len(hist) < WalkLen
         /\ \E c \in Calls : /\ Do(c)
                             /\ hist' = Append(hist, [call |-> c, res |-> Res(L, c), proj |-> Proj(Aft(L, c))])
WSpec == WInit /\ [][WNext]_wvars

Stuck == \A c \in Calls : ~En(L, c)
EmitWalk == (Len(hist) >= WalkLen \/ (Stuck /\ Len(hist) >= 3)) =>
              PrintT(<<"WALK", ToJson([prof |-> L.prof, steps |-> hist])>>)
=============================================================================
