------------------------------ MODULE UuidGen ------------------------------
(***************************************************************************)
(* C19, design level: concurrent generation of time-based UUIDs.           *)
(* Each call reads the clock (100 ns ticks), then increments a process-    *)
(* wide counter and uses the new value modulo 2^K as the clock sequence    *)
(* (K = 14 in RFC 4122).  The node is the same for all calls, so a UUID is *)
(* identified by <<tick, sequence>>.                                       *)
(*                                                                         *)
(*  Atomic = TRUE : the increment is one atomic step (atomic.AddUint32).   *)
(*  Atomic = FALSE: load and store are separate steps (a lost update gives *)
(*                  two calls the same sequence).                          *)
(*                                                                         *)
(* Distinct holds when Atomic and fewer than 2^K UUIDs are generated       *)
(* (MaxCalls < 2^K): all sequence numbers differ.  With 2^K or more calls  *)
(* TLC exhibits the limit: a call that read the clock, was delayed while   *)
(* 2^K others were generated, and then collides with an earlier UUID of    *)
(* the same tick - the bound "fewer than 2^14 UUIDs per tick" has to hold  *)
(* between a call's clock reading and its increment.                       *)
(***************************************************************************)
EXTENDS Integers, Sequences, FiniteSets
CONSTANTS Threads, K, MaxCalls, MaxTick, Atomic

Pow(n) == IF n = 0 THEN 1 ELSE IF n = 1 THEN 2 ELSE IF n = 2 THEN 4 ELSE 8
VARIABLES now, ctr, pc, ts, tmp, out, calls
vars == <<now, ctr, pc, ts, tmp, out, calls>>

Init == /\ now = 0 /\ ctr = 0 /\ calls = 0
        /\ pc = [t \in Threads |-> "idle"]
        /\ ts = [t \in Threads |-> 0]
        /\ tmp = [t \in Threads |-> 0]
        /\ out = <<>>
Tick == now < MaxTick /\ now' = now + 1 /\ UNCHANGED <<ctr, pc, ts, tmp, out, calls>>
ReadClock(t) == /\ pc[t] = "idle" /\ calls < MaxCalls
                /\ calls' = calls + 1
                /\ ts' = [ts EXCEPT ![t] = now]
                /\ pc' = [pc EXCEPT ![t] = "inc"]
                /\ UNCHANGED <<now, ctr, tmp, out>>
Emit(t, seq) == out' = Append(out, <<ts[t], seq % Pow(K)>>)
IncAtomic(t) == /\ Atomic /\ pc[t] = "inc"
                /\ ctr' = ctr + 1
                /\ Emit(t, ctr + 1)
                /\ pc' = [pc EXCEPT ![t] = "idle"]
                /\ UNCHANGED <<now, ts, tmp, calls>>
Load(t) == /\ ~Atomic /\ pc[t] = "inc"
           /\ tmp' = [tmp EXCEPT ![t] = ctr]
           /\ pc' = [pc EXCEPT ![t] = "store"]
           /\ UNCHANGED <<now, ctr, ts, out, calls>>
Store(t) == /\ pc[t] = "store"
            /\ ctr' = tmp[t] + 1
            /\ Emit(t, tmp[t] + 1)
            /\ pc' = [pc EXCEPT ![t] = "idle"]
            /\ UNCHANGED <<now, ts, tmp, calls>>
Next == Tick \/ \E t \in Threads : ReadClock(t) \/ IncAtomic(t) \/ Load(t) \/ Store(t)
Spec == Init /\ [][Next]_vars

Distinct == \A i, j \in 1 .. Len(out) : i # j => out[i] # out[j]
\* the counter counts the calls (no lost update)
Counted == (\A t \in Threads : pc[t] = "idle") => ctr = calls
=============================================================================
