CONSTANT Tier = "thorough"
INIT TInit
NEXT TNext
INVARIANT EmitCase
CHECK_DEADLOCK FALSE
