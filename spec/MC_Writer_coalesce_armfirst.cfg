SPECIFICATION Spec
CONSTANTS
  Writers = {"a", "b", "c"}
  FrameLen <- Lens
  Coalesce = TRUE
  RefuseAfterTorn = TRUE
  AllowCancel = TRUE
  ArmBeforeRefuse = TRUE
  MaxFaults = 2
INVARIANTS WholeFrames NothingAfterPartial OkImpliesWhole NotStartedNoBytes CountExact
