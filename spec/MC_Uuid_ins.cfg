INIT InitIns
NEXT Next
INVARIANT EmitIns
CHECK_DEADLOCK FALSE
