INIT InitCanonSub
NEXT Next
INVARIANT EmitCanonSub
CHECK_DEADLOCK FALSE
