"""C13 - retries, idempotence and speculative execution follow the documented contract.

Executor.tla (state machine of executeQuery/speculate/run/do) + ExecutorMon.tla (the property as a
monitor over observable events).  TLC proves the monitor silent on the model; complete model
behaviours are replayed on the real queryExecutor under a gate scheduler; every real execution
(replayed or free running with the real policies) is validated by TLC: conformance with
Executor.tla (Trace_Executor) and the property monitor (Trace_ExecutorMon).  Verdicts come from
the monitor run over REAL traces only."""
import json, os, re, random, collections, concurrent.futures as cf
import vf

WHAT = {
    "non-idempotent-retried": "a query not marked idempotent was attempted again after a failed attempt "
                              "(doc.go / Query.IsIdempotent: non-idempotent queries are never retried)",
    "speculative-non-idempotent": "a query not marked idempotent was executed speculatively (more than one execution)",
    "speculation-exceeds-policy": "more executions were started than 1 + SpeculativeExecutionPolicy.Attempts()",
    "attempts-exceed-budget": "more attempts reached servers than the policies allow "
                              "(retry budget over the shared counter + one per execution started), or an attempt "
                              "was made although RetryPolicy.Attempt answered false",
    "retry-budget-miscounted": "RetryPolicy.Attempt of a budget policy answered differently from "
                               "'Attempts() <= NumRetries' (NumRetries = number of times to retry)",
    "attempts-miscounted": "Attempts(), which the retry policy consults, is not the number of attempts made so far "
                           "(Query/Batch.attempt feed the shared counter)",
    "attempt-after-result": "a request for the statement was sent after the caller had got its result (the executions' "
                            "context is cancelled when executeQuery returns; a losing execution must stop)",
    "retry-decision-not-as-documented": "a shipped retry policy decided differently from its godoc (retried / not retried "
                                        "for this error kind, write type, acknowledgements)",
    "host-reused-by-parallel-execution": "an execution of the statement attempted a host another execution of the same "
                                         "statement had already attempted, while an offered usable host was still untried "
                                         "(the executions must share one plan of the host selection policy)",
    "retry-wrong-host": "a retry did not go where the policy's decision says (Retry: same host, RetryNextHost: "
                        "the next usable host offered by the host selection policy)",
    "retry-without-decision": "a retry was made without asking RetryPolicy.GetRetryType",
    "retry-without-policy": "a failed attempt was retried although the query has no retry policy",
    "retry-after-success": "an execution attempted again after a successful attempt",
    "continued-after-rethrow": "an execution attempted again after the policy decided Rethrow",
    "continued-after-ignore": "an execution attempted again after the policy decided Ignore",
    "continued-after-unknown-decision": "an execution attempted again after an unknown retry decision",
    "attempt-after-cancel": "an execution attempted again after it had observed the context's cancellation",
    "wrong-result-returned": "the result handed to the caller is not the result of the first completed execution "
                             "(its last attempt's Iter)",
    "last-error-swallowed": "the error handed to the caller is not the last attempt's error of the execution that completed",
    "multiple-results": "more than one result was returned",
    "executor-never-returns-after-cancel": "the caller's context ended (cancelled / deadline) after every execution had been "
                                           "launched; every execution goroutine finished (each may drop its result once the "
                                           "context is done), and executeQuery never returned: the caller gets no result",
    "no-result-returned": "executeQuery (or an execution goroutine) did not finish: the caller got no result",
    "executor-panic": "executeQuery panicked",
}


def _cases_from(ctx, cfg, name, simulate=None, seed=None, timeout=600):
    extra = ["-seed", str(seed)] if seed is not None else None
    r = vf.run_tlc(ctx, "MC_Executor", cfg, workers=1, timeout=timeout, deadlock=False, simulate=simulate,
                   depth=200 if simulate else None, extra=extra, name=name, heap="3g")
    if not r.ok:
        raise vf.Inconclusive("behaviour dump %s failed: %s\n%s" % (cfg, r.error or r.violated, r.out[-2000:]))
    cases = vf.tlc_printed(r.out, "CASE")
    seen, out = set(), []
    for c in cases:
        k = json.dumps(c, sort_keys=True)
        if k not in seen:
            seen.add(k)
            out.append(c)
    if not out:
        raise vf.Inconclusive("behaviour dump %s produced nothing" % cfg)
    return out, r


WIRE_CONCURRENT = ("e2e:spec", "e2e:spec-cancel")


def _harness_dirs():
    common = os.path.join(vf.HARNESS, "common")
    has = os.path.isdir(common) and any(f.endswith(".go") for f in os.listdir(common))
    return (["common"] if has else []) + ["c13"]


def _split_traces(path):
    """NDJSON file -> OrderedDict id -> list of records (begin .. endtrace)."""
    tr, cur = collections.OrderedDict(), None
    for rec in vf.read_ndjson(path):
        if rec["ev"] == "begin":
            cur = rec["id"]
            tr[cur] = []
        tr[cur].append(rec)
    return tr


def _fmt(e):
    return "%s(e%d h%d n%d %s%s)" % (e["ev"], e["e"], e["h"], e["n"], e["x"], (" " + e["y"]) if e["y"] else "")


def _shard(ctx, traces, ids, nshards, tag):
    nshards = max(1, min(nshards, len(ids)))
    paths = []
    for i in range(nshards):
        p = os.path.join(ctx.tmp, "c13_%s_%d.ndjson" % (tag, i))
        vf.write_ndjson(p, [rec for t in ids[i::nshards] for rec in traces[t]])
        paths.append(p)
    return paths


def _tlc_traces(ctx, traces, nshards):
    """TLC over the real traces.  Pass 1 (Trace_Executor): conformance with Executor.tla; the property monitor
    runs along as the model's ghost variable, so an accepted trace comes back with the keys the monitor raised on
    exactly the recorded events.  Pass 2 (Trace_ExecutorMon): the monitor alone over the traces pass 1 rejected.
    Returns (mon: id -> {viol, ...}, accepted ids, states, transitions)."""
    # Concurrent executions observed on the wire (mode e2e:spec): the observation points (a node's receipt and
    # answer, the observer callback) are not atomic with the driver's attempt counter, so the event order of
    # DIFFERENT executions in the log need not be a linearisation Executor.tla accepts.  Those traces get the
    # property monitor only (every clause it evaluates there is order-insensitive across executions or uses
    # only per-execution causal order).
    noconf = {t for t in traces if traces[t][0].get("mode") in WIRE_CONCURRENT}
    ids = [t for t in traces if t not in noconf]

    def conf(p):
        return vf.run_tlc(ctx, "Trace_Executor", "Trace_Executor.cfg", workers=1, heap="2g", timeout=900,
                          env={"VF_TRACE": p}, deadlock=False, name="c13conf_" + os.path.basename(p), quiet=True)

    def monr(p):
        return vf.run_tlc(ctx, "Trace_ExecutorMon", "Trace_ExecutorMon.cfg", workers=1, heap="2g", timeout=900,
                          env={"VF_TRACE": p}, deadlock=False, name="c13mon_" + os.path.basename(p), quiet=True)

    mon, acc, st, trn = {}, set(), 0, 0
    with cf.ThreadPoolExecutor(nshards + 2) as ex:
        early = [ex.submit(monr, p) for p in (_shard(ctx, traces, sorted(noconf), 1, "wire") if noconf else [])]
        for r in ex.map(conf, _shard(ctx, traces, ids, nshards, "conf")):
            if not r.ok:
                raise vf.Inconclusive("TLC conformance run on real traces failed: %s\n%s" % (r.error or r.violated, r.out[-2000:]))
            for a in vf.tlc_printed(r.out, "ACCEPT"):
                acc.add(a["id"])
                mon[a["id"]] = dict(id=a["id"], viol=a["viol"], first=0, execs=a["execs"], sent=a["sent"])
            st += r.distinct
            trn += r.generated
        rejected = [t for t in ids if t not in acc]
        late = list(ex.map(monr, _shard(ctx, traces, rejected, nshards, "mon"))) if rejected else []
        if early or late:
            for r in [f.result() for f in early] + late:
                if not r.ok:
                    raise vf.Inconclusive("TLC monitor run on real traces failed: %s\n%s" % (r.error or r.violated, r.out[-2000:]))
                for m in vf.tlc_printed(r.out, "MON"):
                    mon[m["id"]] = m
                st += r.distinct
                trn += r.generated
    ctx.log("TLC on %d real traces: %d conform to Executor.tla, %d do not (monitored separately); %d wire-level concurrent "
            "traces monitored only" % (len(ids), len(acc), len(rejected), len(noconf)))
    return mon, acc | noconf, st, trn


def run(ctx):
    quick = ctx.tier == "quick"
    ctx.level = "model_checking"
    rnd = random.Random(ctx.seed)

    if getattr(ctx, "replay", None):
        return _replay(ctx)

    # ---------------------------------------------------------------- 1. model passes and dumps (in parallel)
    jobs = {}
    vf._scratch_spec_dir(ctx, "w")  # create the scratch copy before the parallel TLC runs
    with cf.ThreadPoolExecutor(8) as ex:
        main_cfg = "MC_Executor_quick.cfg" if quick else "MC_Executor_thorough.cfg"
        jobs["main"] = ex.submit(vf.run_tlc, ctx, "MC_Executor", main_cfg, workers=max(4, vf.NCPU - 6), timeout=1500,
                                 heap="4g" if quick else "14g")
        if not quick:  # liveness (<>returned under weak fairness) is part of the thorough tier
            jobs["live"] = ex.submit(vf.run_tlc, ctx, "MC_Executor", "MC_Executor_live.cfg", workers=2, timeout=900, heap="2g")
        jobs["defect"] = ex.submit(vf.run_tlc, ctx, "MC_Executor", "MC_Executor_defect.cfg", workers=1, timeout=300, heap="2g")
        if not quick:  # tightness of the attempt bound: thorough tier
          jobs["witness"] = ex.submit(vf.run_tlc, ctx, "MC_Executor", "MC_Executor_witness.cfg", workers=2, timeout=600, heap="2g")
          jobs["tempting"] = ex.submit(vf.run_tlc, ctx, "MC_Executor", "MC_Executor_tempting.cfg", workers=1, timeout=300, heap="2g")
        jobs["stuck"] = ex.submit(vf.run_tlc, ctx, "MC_Executor", "MC_Executor_stuck.cfg", workers=1, timeout=300, heap="2g",
                                  deadlock=False)
        jobs["rounds"] = ex.submit(_cases_from, ctx, "MC_Executor_cancelrounds.cfg", "dump_rounds")
        jobs["seq"] = ex.submit(_cases_from, ctx, "MC_Executor_seq.cfg" if quick else "MC_Executor_seqth.cfg", "dump_seq")
        jobs["conc"] = ex.submit(_cases_from, ctx, "MC_Executor_conc.cfg", "dump_conc",
                                 "num=%d" % (1500 if quick else 30000), ctx.seed)
        if not quick:
            jobs["concex"] = ex.submit(_cases_from, ctx, "MC_Executor_concex.cfg", "dump_concex")
        jobs["build"] = ex.submit(vf.build_gotest, ctx, ".", _harness_dirs())
        res = {k: f.result() for k, f in jobs.items()}

    mc = res["main"]
    if not mc.ok:
        raise vf.Inconclusive("model pass failed: violated=%s error=%s\n%s" % (mc.violated, mc.error, "\n".join(mc.out.splitlines()[-40:])))
    if "live" in res and not res["live"].ok:
        raise vf.Inconclusive("liveness pass failed: %s %s" % (res["live"].violated, res["live"].error))
    # negative controls: the model of the code as it is violates the documented clause; the bound
    # budget + executions is reached; budget + 1 is too tight under speculation
    for k, inv in (("defect", "NonIdemNeverRetried"), ("witness", "BoundNotReached"), ("tempting", "TemptingBound")):
        if k not in res:
            continue
        if res[k].violated != inv:
            raise vf.Inconclusive("control run %s: expected TLC to violate %s, got violated=%s error=%s" % (
                k, inv, res[k].violated, res[k].error))
    # the wrong variant "executeQuery waits for a result only after the last launch" must violate <>returned
    if not str(res["stuck"].violated or "").startswith(("temporal", "Terminates", "deadlock")):
        raise vf.Inconclusive("control run stuck: expected TLC to refute Defect_WaitResultsOnly (Terminates), got violated=%s error=%s" % (
            res["stuck"].violated, res["stuck"].error))
    states = mc.distinct + (res["live"].distinct if "live" in res else 0)
    trans = mc.generated + (res["live"].generated if "live" in res else 0)
    seq_cases, seq_r = res["seq"]
    conc_cases, _ = res["conc"]
    if not quick:
        cx, cx_r = res["concex"]
        have = {json.dumps(c, sort_keys=True) for c in conc_cases}
        conc_cases += [c for c in cx if json.dumps(c, sort_keys=True) not in have]
        states += cx_r.distinct
        trans += cx_r.generated
    states += seq_r.distinct
    trans += seq_r.generated
    conc_cases = [c for c in conc_cases if len(c["hist"]) > 2]
    cap = 500 if quick else 16000
    if len(conc_cases) > cap:
        conc_cases = rnd.sample(conc_cases, cap)
    # rounds of "the caller's context ends after every execution was launched and before any attempt answered"
    # (all behaviours of a small instance with that shape; run() may then drop its result - the runtime's choice -
    # so many rounds are executed: a variant that stops listening to the context hangs in 1 of 4)
    def _round(c):
        evs = [e["ev"] for e in c["hist"]]
        if "cancel" not in evs:
            return False
        i = evs.index("cancel")
        return (sum(1 for e in c["hist"][:i] if e["ev"] == "start") == c["cfg"]["k"] + 1
                and not any(e["ev"] == "end" for e in c["hist"][:i]))
    round_cases = [c for c in res["rounds"][0] if _round(c)]
    if len(round_cases) < 20:
        raise vf.Inconclusive("only %d cancel-round behaviours in the model dump" % len(round_cases))
    nround = 64 if quick else 256
    round_cases = [json.loads(json.dumps(round_cases[i % len(round_cases)])) for i in
                   rnd.sample(range(max(nround, len(round_cases))), nround)]
    conc_cases = conc_cases + round_cases
    cases = []
    for c in seq_cases + conc_cases:
        c["id"] = len(cases) + 1
        cases.append(c)
    ctx.log("model behaviours to replay: %d sequential (all), %d concurrent" % (len(seq_cases), len(conc_cases)))
    binary = res["build"]

    # ---------------------------------------------------------------- 2. replay on the real executor
    cp = os.path.join(ctx.tmp, "c13_cases.ndjson")
    vf.write_ndjson(cp, cases)
    rp = os.path.join(ctx.tmp, "c13_replay_traces.ndjson")
    rc, out = vf.run_gotest(ctx, binary, "^TestVfC13Replay$", env={"VF_CASES": cp, "VF_TRACES": rp, "VF_PAR": 6}, timeout=900)
    sums = [json.loads(l[9:]) for l in out.splitlines() if l.startswith("VFC13SUM ")]
    if len(sums) != len(cases):
        raise vf.Inconclusive("replay driver: %d summaries for %d cases\n%s" % (len(sums), len(cases), out[-3000:]))
    # ---------------------------------------------------------------- 3. free-running executions, real policies
    fp = os.path.join(ctx.tmp, "c13_free_traces.ndjson")
    nfree = 600 if quick else 6000
    rc, out2 = vf.run_gotest(ctx, binary, "^TestVfC13Free$", env={"VF_TRACES": fp, "VF_NTRACES": nfree, "VF_IDBASE": 1000000},
                             timeout=900)
    fsums = [json.loads(l[9:]) for l in out2.splitlines() if l.startswith("VFC13SUM ")]
    if len(fsums) != nfree:
        raise vf.Inconclusive("free-running driver: %d summaries for %d executions\n%s" % (len(fsums), nfree, out2[-3000:]))
    # ---------------------------------------------------------------- 3b. end to end: real Session over scripted nodes
    ep = os.path.join(ctx.tmp, "c13_e2e_traces.ndjson")
    ne2e = 300 if quick else 3000
    rc, out3 = vf.run_gotest(ctx, binary, "^TestVfC13E2E$", env={"VF_TRACES": ep, "VF_NSTMTS": ne2e, "VF_IDBASE": 2000000},
                             timeout=900)
    esums = [json.loads(l[9:]) for l in out3.splitlines() if l.startswith("VFC13SUM ")]
    if len(esums) != ne2e:
        raise vf.Inconclusive("end-to-end driver: %d summaries for %d statements\n%s" % (len(esums), ne2e, out3[-3000:]))
    traces = _split_traces(rp)
    traces.update(_split_traces(fp))
    traces.update(_split_traces(ep))
    fsums = fsums + esums
    skipped = [s for s in sums + fsums if s.get("skipped")]
    sums = [s for s in sums if not s.get("skipped")]
    fsums = [s for s in fsums if not s.get("skipped")]
    sumby = {s["id"]: s for s in sums + fsums}
    if set(traces.keys()) != set(sumby.keys()):
        raise vf.Inconclusive("trace files and summaries disagree")
    if skipped:
        # the drivers stop executing cases once several executions hung (each hang costs a watchdog period)
        if not any(s["hang"] for s in sumby.values()):
            raise vf.Inconclusive("cases were skipped without a recorded hang")
        ctx.log("%d cases skipped after %d executions hung" % (len(skipped), sum(1 for s in sumby.values() if s["hang"])))
    ctx.log("real executions recorded: %d replayed (%d exactly as the model behaviour), %d free running, %d end to end" % (
        len(sums), sum(1 for s in sums if s["exact"]), len(fsums) - len(esums), len(esums)))

    # ---------------------------------------------------------------- 3c. the shipped policies, row by row
    rows_p = os.path.join(ctx.tmp, "c13_policy_rows.ndjson")
    rc, out4 = vf.run_gotest(ctx, binary, "^TestVfC13PolicyTable$", env={"VF_ROWS": rows_p}, timeout=300)
    mrows = re.search(r"^VFC13ROWS (\d+)$", out4, re.M)
    if not mrows or int(mrows.group(1)) < 100:
        raise vf.Inconclusive("policy table driver gave no rows:\n" + out4[-2000:])
    # (judged by TLC concurrently with the trace validation below)
    _polx = cf.ThreadPoolExecutor(1)
    _polf = _polx.submit(vf.run_tlc, ctx, "Trace_ExecutorPol", "Trace_ExecutorPol.cfg", workers=1, heap="1g", timeout=300,
                         env={"VF_TRACE": rows_p}, deadlock=False, name="c13_policy_rows", quiet=True)

    # ---------------------------------------------------------------- 4. TLC over the real traces
    # A replay whose recorded trace is event for event the model behaviour it was generated from needs no second
    # opinion: TLC produced that behaviour with NoViolation checked on it (the dump configurations).  Equality
    # is established here, on the recorded file.  TLC validates every other real trace and every 8th exact one.
    casesby0 = {c["id"]: c for c in cases}
    ev6 = lambda e: (e["ev"], e["e"], e["h"], e["n"], e["x"], e["y"])
    same = [t for t in traces if t in casesby0 and [ev6(e) for e in traces[t][1:-1]] == [ev6(e) for e in casesby0[t]["hist"]]]
    bound_by_equality = set(t for i, t in enumerate(same) if i % 8 != 0)
    totlc = collections.OrderedDict((t, traces[t]) for t in traces if t not in bound_by_equality)
    mon, acc, tst, ttr = _tlc_traces(ctx, totlc, 3 if quick else 14)
    for t in bound_by_equality:
        evs = traces[t]
        mon[t] = dict(id=t, viol=[], first=0, execs=len({e["e"] for e in evs if e["e"] > 0}),
                      sent=sum(1 for e in evs if e["ev"] == "start" and e["x"] == "sent"))
        acc.add(t)
    ctx.log("%d replays equal their model behaviour event for event (%d of them also validated by TLC)" % (
        len(same), len(same) - len(bound_by_equality)))
    rt = _polf.result()
    _polx.shutdown()
    judged = re.findall(r'<<"ROWS", (\d+)>>', rt.out)
    if not rt.ok or not judged or int(judged[-1]) != int(mrows.group(1)):
        raise vf.Inconclusive("policy table: TLC judged %s of %s rows: %s\n%s" % (judged, mrows.group(1), rt.error, rt.out[-1500:]))
    badrows = vf.tlc_printed(rt.out, "ROWBAD")
    for row in badrows[:20]:
        key = "retry-decision-not-as-documented" if row["ev"] == "decide" else "retry-budget-miscounted"
        ctx.violation(key, "%s; real %s policy object (budget %d): %s" % (
            WHAT[key], row["policy"], row["poln"],
            ("GetRetryType(%s) = %s" % (row["y"], row["x"])) if row["ev"] == "decide" else
            ("Attempt with Attempts() = %d answered %s" % (row["n"], row["x"]))), dict(row=row))
    ctx.log("policy table: %s rows of the real Simple / ExponentialBackoff / DowngradingConsistency policies judged by TLC, %d contradict the godoc table" % (
        judged[-1], len(badrows)))
    nrows = int(judged[-1])

    if set(mon.keys()) != set(traces.keys()):
        raise vf.Inconclusive("monitor produced %d verdicts for %d traces" % (len(mon), len(traces)))
    _confirm_timing_dependent(ctx, binary, cases, traces, sumby, mon)
    _verdicts(ctx, cases, traces, sumby, mon, acc)

    nspec = sum(1 for t in traces.values() if t[0].get("mode") in WIRE_CONCURRENT)
    casesby = {c["id"]: c for c in cases}
    nviol = sum(1 for m in mon.values() if m["viol"])
    exact = sum(1 for s in sums if s["exact"])
    multi = sum(1 for m in mon.values() if m["execs"] >= 2)
    sample_id = next((s["id"] for s in sums if s["exact"] and len(casesby[s["id"]]["hist"]) >= 12), sums[0]["id"])
    ctx.cov = dict(
        states=states, transitions=trans,
        traces_validated_against_impl=len(acc) - nspec,
        wire_level_concurrent_traces_monitored_only=nspec,
        exhaustive=True,
        model_configs=[dict(cfg=main_cfg, distinct=mc.distinct, generated=mc.generated, depth=mc.depth),
                       ] + ([dict(cfg="MC_Executor_live.cfg", distinct=res["live"].distinct, generated=res["live"].generated)]
                            if "live" in res else []),
        cancel_round_replays=len(round_cases), policy_table_rows_judged=nrows,
        controls=dict(wait_results_only_variant_refuted="Terminates", defect_model_violates="NonIdemNeverRetried", bound_reached="budget + executions (5 = 2 + 3)",
                      tempting_bound_violated="budget + 1"),
        model_behaviours_replayed=len(cases), sequential_behaviours=len(seq_cases), concurrent_behaviours=len(conc_cases),
        replayed_exactly=exact, replays_bound_by_equality_only=len(bound_by_equality), free_running_executions=len(fsums) - len(esums), end_to_end_statements=len(esums),
        statement_kinds=dict(collections.Counter("%s%s" % (t[0].get("stmt", "?"), "+observer" if t[0].get("observer") else "")
                                                 for t in traces.values())),
        real_traces=len(traces), real_traces_conforming=len(acc), real_traces_with_property_violation=nviol,
        real_traces_with_concurrent_executions=multi,
        trace_validation_states=tst, trace_validation_transitions=ttr,
        samples=[dict(kind="model behaviour replayed exactly on the real executor", cfg=casesby[sample_id]["cfg"],
                      events=[_fmt(e) for e in casesby[sample_id]["hist"]])],
    )
    ctx.assumptions += [
        "bounded scenarios: <= 3-4 offered hosts, retry budgets 0..2 (and two non-monotone Attempt functions), "
        "speculative attempts 0..2, every outcome script the budgets admit",
        "the connection refuses a cancelled context before sending (Conn.exec's first statement), as the fake execute does",
        "in-package level: attempts reach 'servers' = calls of ExecutableQuery.execute on a connection of the host; "
        "end-to-end level (sequential statements only, no speculation, no cancellation): requests received by scripted nodes",
    ]


def _confirm_timing_dependent(ctx, binary, cases, traces, sumby, mon):
    """The only observations that depend on a time-out are the harness's "quiesce" event (nothing moved for the
    settle time while every other execution was parked) and the watchdog of a replayed case.  A key raised on
    such a trace is kept only if it is raised again when the case is re-executed alone with a three times longer
    settle time; otherwise it is dropped (an overloaded machine, not the code)."""
    casesby = {c["id"]: c for c in cases}
    # (a hang the driver established event based - "stuck" - is certain and, being a choice of the runtime inside
    # a select, need not repeat: it is not a suspect)
    sus = [t for t, m in mon.items() if t in casesby and (
        (m["viol"] and any(e["ev"] == "quiesce" for e in traces[t])) or (sumby[t]["hang"] and not sumby[t].get("stuck")))]
    if not sus:
        return
    sus = sus[:40]
    cp = os.path.join(ctx.tmp, "c13_confirm_cases.ndjson")
    vf.write_ndjson(cp, [casesby[t] for t in sus])
    rp = os.path.join(ctx.tmp, "c13_confirm_traces.ndjson")
    rc, out = vf.run_gotest(ctx, binary, "^TestVfC13Replay$", env={"VF_CASES": cp, "VF_TRACES": rp, "VF_PAR": 2,
                                                                     "VF_SETTLE_MS": 3000}, timeout=900)
    sums2 = {s["id"]: s for s in (json.loads(l[9:]) for l in out.splitlines() if l.startswith("VFC13SUM ")) if not s.get("skipped")}
    tr2 = _split_traces(rp)
    mon2, _, _, _ = _tlc_traces(ctx, tr2, 2) if tr2 else ({}, set(), 0, 0)
    dropped = 0
    for t in mon:
        if not (t in casesby and ((mon[t]["viol"] and any(e["ev"] == "quiesce" for e in traces[t])) or
                                  (sumby[t]["hang"] and not sumby[t].get("stuck")))):
            continue
        if t in mon2 and t in sums2:
            keep = [k for k in mon[t]["viol"] if k in mon2[t]["viol"]]
            if len(keep) != len(mon[t]["viol"]) or (sumby[t]["hang"] and not sums2[t]["hang"]):
                dropped += 1
            mon[t]["viol"] = keep
            if not sums2[t]["hang"]:
                sumby[t]["hang"] = ""
            if keep or sums2[t]["hang"]:
                traces[t] = tr2[t]      # report the confirming execution
        else:
            # not re-executed (more than 40 suspects): keep only if some re-executed suspect was confirmed
            pass
    ctx.log("timing-dependent observations: %d suspects re-executed, %d not confirmed" % (len(sus), dropped))
    if dropped:
        ctx.notes.append("%d time-out based observations were not reproduced on re-execution and were dropped" % dropped)


def _verdicts(ctx, cases, traces, sumby, mon, acc):
    casesby = {c["id"]: c for c in cases}
    perkey = collections.Counter()
    ndrift = 0
    for tid, m in mon.items():
        s = sumby[tid]
        keys = list(m["viol"])
        if s["hang"] and not any(e["ev"] == "return" for e in traces[tid]):
            # certain (event based): the context is done, every execution goroutine has finished, no return
            keys.append("executor-never-returns-after-cancel" if s.get("stuck") and any(e["ev"] == "cancel" for e in traces[tid])
                        else "no-result-returned")
        if s["panic"]:
            keys.append("executor-panic")
        tr = traces[tid]
        hdr = {k: tr[0][k] for k in ("hosts", "polkind", "poln", "allow", "k", "idem", "policy", "mode", "stmt", "observer", "entries", "setter") if k in tr[0]}
        # the statement kind is part of this class: Query.execute and Batch.execute / Conn.executeBatch hand the
        # executor's context to the connection in different places
        keys = [k + ":" + hdr.get("stmt", "?") if k == "attempt-after-result" else k for k in keys]
        for key in keys:
            perkey[key] += 1
            if perkey[key] > 25:
                continue
            first = m.get("first", 0)
            detail = dict(scenario=hdr, real_trace=[_fmt(e) for e in tr[1:-1]], summary=s,
                          model_behaviour=[_fmt(e) for e in casesby[tid]["hist"]] if tid in casesby else None,
                          case=casesby.get(tid))
            ctx.violation(key, "%s; scenario %s, real trace: %s" % (
                WHAT.get(key.split(":")[0], key), json.dumps(hdr, sort_keys=True), " ".join(_fmt(e) for e in tr[1:-1])), detail)
        if not keys and tid not in acc:
            ndrift += 1
            if ndrift <= 5:
                ctx.add_drift("a real execution is not a behaviour of Executor.tla although no clause of the property is "
                              "violated (scenario %s): %s" % (json.dumps(hdr, sort_keys=True), " ".join(_fmt(e) for e in tr[1:-1])))
    if ndrift > 5:
        ctx.add_drift("... and %d more non-conforming executions" % (ndrift - 5))
    for k, n in perkey.items():
        ctx.log("property violations on real traces: %s x %d" % (k, n))


def _replay(ctx):
    """--replay PATH: re-execute the stored failing cases and evaluate the monitor on the new real traces."""
    rep = json.load(open(ctx.replay))
    cases = []
    for v in rep.get("violations", []):
        c = (v.get("detail") or {}).get("case")
        if c:
            c = dict(c)
            c["id"] = len(cases) + 1
            cases.append(c)
    if not cases:
        raise vf.Inconclusive("the replay file holds no model behaviour to re-execute (free-running traces are seed based: "
                              "re-run with --seed %s)" % rep.get("seed"))
    binary = vf.build_gotest(ctx, ".", _harness_dirs())
    cp = os.path.join(ctx.tmp, "c13_cases.ndjson")
    vf.write_ndjson(cp, cases)
    rp = os.path.join(ctx.tmp, "c13_replay_traces.ndjson")
    rc, out = vf.run_gotest(ctx, binary, "^TestVfC13Replay$", env={"VF_CASES": cp, "VF_TRACES": rp, "VF_PAR": 2}, timeout=600)
    sums = [json.loads(l[9:]) for l in out.splitlines() if l.startswith("VFC13SUM ")]
    traces = _split_traces(rp)
    mon, acc, st, trn = _tlc_traces(ctx, traces, 2)
    _verdicts(ctx, cases, traces, {s["id"]: s for s in sums}, mon, acc)
    ctx.cov = dict(states=st, transitions=trn, traces_validated_against_impl=len(acc), replayed_cases=len(cases),
                   samples=[dict(kind="replayed case", events=[_fmt(e) for e in traces[1][1:-1]])])
