"""C10 - replica sets for a token equal Cassandra's placement.

spec -> code: Gen_Topology.tla enumerates every bounded ring x layout x keyspace (one TLC state per
case) with the reference replica list of every ring position (Topology.tla); the Go harness runs
each on the real newTokenRing / getStrategy / replicaMap / replicasFor; exact agreement with the
reference is accepted, everything else is handed to TLC (Trace_Topology.tla), which evaluates the
property predicates on the REAL output and classifies.
code -> spec: seeded random larger rings executed on the real code, recorded as vectors and
validated by the same TLC vector specification.
"""
import json, os, re, collections
import vf

PARTS = ["Murmur3Partitioner", "OrderedPartitioner", "RandomPartitioner"]
SPREADS = ["compact", "full", "edge", "zero"]
FAULTS = ["", "local", "unknown-class", "bad-rf", "fetch-fail-ks", "fetch-remove", "remove", "remove"]
DCNAMES = ["", "upper", "mixed", "blank"]
POLS = [b + s_ + n for b in ("rr", "dc", "rack") for s_ in ("", "-shuffle") for n in ("", "-nonlocal")]
DEV_WORKERS = int(os.environ.get("VERIF_TLC_WORKERS", "0")) or None   # None: all cores (the exhaustive generator pass)
VAL_WORKERS = DEV_WORKERS or min(8, vf.NCPU)                             # vector validation passes


def harness_dirs(d):
    hs = []
    if [f for f in os.listdir(os.path.join(vf.HARNESS, "common")) if f.endswith(".go")]:
        hs.append("common")
    return hs + [d]


def generate_cases(ctx, cfg, timeout):
    r = vf.tlc_must_pass(ctx, "Gen_Topology", cfg, workers=DEV_WORKERS, heap="6g", timeout=timeout, deadlock=False, quiet=False)
    cases = vf.tlc_printed(r.out, "CASE")
    r.out = ""
    if not cases:
        raise vf.Inconclusive("the generator printed no cases")
    # every stage-3 state is one case; the other states are the three enumeration levels
    rings = {json.dumps(c["ring"]) for c in cases}
    layouts = {json.dumps([c["ring"], c["dc"], c["rack"]]) for c in cases}
    if r.distinct != 1 + len(rings) + len(layouts) + len(cases):
        raise vf.Inconclusive("generator output incomplete: %d cases parsed, %d states (%d rings, %d layouts)" % (
            len(cases), r.distinct, len(rings), len(layouts)))
    return cases, r, len(layouts)


def exact_agreement(case, vec):
    """The real output equals the reference list, element for element, for every lookup and every
    replica-map entry, and nothing panicked.  (Equality only - no judgement.)"""
    if vec["pclass"] != "none":
        return False
    exp, tokens, look, _ = case
    pos = {t: i for i, t in enumerate(tokens)}
    idx = {l[0]: l[1] for l in look}
    if len(vec["look"]) != len(look):
        return False
    for e in vec["look"]:
        if e["hosts"] != exp[idx[e["t"]] - 1]:
            return False
    for e in vec["map"] + vec["map2"]:
        if e["t"] not in pos or e["hosts"] != exp[pos[e["t"]]]:
            return False
    if vec["pol"] and len(vec["look2"]) != len(look):
        return False
    for e in vec["look2"]:
        if e["hosts"] != exp[idx[e["t"]] - 1]:
            return False
    if vec["look3"]:      # after an update step: never identical by construction, TLC judges
        if vec["fault"] == "remove" or any(e["hosts"] for e in vec["look3"]):
            return False
    return True


def key_of(v):
    """Violation key from the verdict record TLC printed for one real vector."""
    st = v["strat"]
    if v["pclass"] != "none":
        if v["pclass"] == "mapsize" and v["absentdc"]:
            return st + "-panic-unknown-dc"
        if v["pclass"] == "lookup":
            return "lookup-panic"
        return st + "-panic-" + v["pclass"]
    mk, lk = set(v["mapkinds"]), set(v["lookkinds"])
    if not mk and not lk:
        # built right; wrong in the map a token aware policy holds after routing queries
        k2 = set(v["map2kinds"]) | set(v["look2kinds"])
        if not k2 and v["look3kinds"]:
            return st + "-stale-replica-map-after-" + v["fault"]
        for k in ("duplicate-replica", "missing-replica", "foreign-replica", "primary-not-first", "size-bound", "foreign-token"):
            if k in k2:
                return st + "-after-picks-" + ("wrong-set" if k in ("missing-replica", "foreign-replica") else k)
        return st + "-after-picks-" + sorted(k2)[0]
    if not mk and lk:
        # the replica map is right everywhere, the lookup picked the wrong entry
        return "lookup-mismatch"
    kinds = mk | lk
    if "foreign-token" in kinds:
        return st + "-foreign-token"
    if "duplicate-replica" in kinds:
        extra = sorted(kinds & {"foreign-replica", "primary-not-first"})
        return st + "-duplicate-replica" + "".join("+" + e for e in extra)
    if kinds & {"missing-replica", "foreign-replica"}:
        return st + "-wrong-set"
    if "primary-not-first" in kinds:
        return st + "-primary-not-first"
    return st + "-" + sorted(kinds)[0]


def validate_vectors(ctx, name, vectors, timeout):
    """TLC evaluates the property predicates on real vectors.  Returns (verdicts by (id, part), TlcResult)."""
    if not vectors:
        return {}, None
    p = os.path.join(ctx.tmp, "vec_%s.ndjson" % name)
    vf.write_ndjson(p, vectors)
    r = vf.run_tlc(ctx, "Trace_Topology", "Trace_Topology.cfg", workers=VAL_WORKERS, heap="6g", timeout=timeout,
                   env={"VF_TRACE": p}, deadlock=False, name="vectors_" + name)
    if not r.ok:
        raise vf.Inconclusive("vector validation failed to run (%s): %s\n%s" % (name, r.error or r.violated, r.out[-2500:]))
    if vf.tlc_printed(r.out, "MALFORMED"):
        raise vf.Inconclusive("malformed vectors in %s: %s" % (name, vf.tlc_printed(r.out, "MALFORMED")[:3]))
    # one state per record + 64 bucket states + the initial state: every record was evaluated
    if r.distinct != len(vectors) + 64 + 1:
        raise vf.Inconclusive("vector validation evaluated %d states for %d records (%s)" % (r.distinct, len(vectors), name))
    out = {}
    for v in vf.tlc_printed(r.out, "VIOL"):
        out[(v["id"], v["part"])] = v
    return out, r


def report(ctx, verdicts, vecs_by_key, origin):
    groups = collections.OrderedDict()
    for k, v in verdicts.items():
        groups.setdefault(key_of(v), []).append(k)
    for key, ks in groups.items():
        first = verdicts[ks[0]]
        vec = vecs_by_key[ks[0]]
        smp = first["sample"] if first["sample"]["pos"] or not first.get("sample2") else first["sample2"]
        what = "%s: %d case(s), e.g. %s tokens %s ring=%s dc=%s rack=%s down=%s%s %s %s -> %s" % (
            origin, len(ks), vec["part"], (vec.get("spread") or "compact") + (" dcnames=" + vec["dcnames"] if vec.get("dcnames") else ""), vec["ring"], vec["dc"], vec["rack"], vec.get("down", []),
            (" via TokenAwareHostPolicy(%s) after picks" % vec["pol"]) if vec.get("pol") else "", vec["strat"],
            dict(zip(vec["rfdc"], vec["rfn"])),
            ("panic: " + vec["pmsg"]) if vec["pclass"] != "none" else
            ("after the update that could not be carried out the policy still associates %s" % [e for e in vec["look3"] if e["hosts"]][:3])
            if key.split("-")[1:2] == ["stale"] else "token %s: driver %s, Cassandra %s" % (smp["t"], smp["got"], smp["ref"]))
        ctx.violation(key, what, dict(count=len(ks), verdict=first, vector=vec,
                                      more=[vecs_by_key[k] for k in ks[1:3]]))
    return groups


def replay(ctx):
    """bin/check C10 --replay FILE: re-execute the vectors of a replay file on the current tree and
    let TLC judge the new output."""
    rep = json.load(open(ctx.replay))
    vecs = []
    for v in rep.get("violations", []):
        d = v.get("detail") or {}
        vecs += [d["vector"]] + list(d.get("more", []))
    if not vecs:
        raise vf.Inconclusive("no vectors in %s" % ctx.replay)
    cases = [dict(id=i + 1, ring=v["ring"], dc=v["dc"], rack=v["rack"], strat=v["strat"], rfdc=v["rfdc"], rfn=v["rfn"],
                  tokens=v["tokens"], look=[[e["t"]] for e in v["look"]] or [[t] for t in v["tokens"]], form=v["form"],
                  parts=[v["part"]], down=v.get("down", []), spread=v.get("spread", ""), pol=v.get("pol", ""), fault=v.get("fault", ""), dcnames=v.get("dcnames", "")) for i, v in enumerate(vecs)]
    cp, rp = os.path.join(ctx.tmp, "cases.ndjson"), os.path.join(ctx.tmp, "results.ndjson")
    vf.write_ndjson(cp, cases)
    binary = vf.build_gotest(ctx, ".", harness_dirs("c10"))
    rc, out = vf.run_gotest(ctx, binary, "^TestVfC10Cases$", env={"VF_CASES": cp, "VF_RESULTS": rp}, timeout=300)
    if rc != 0 or "VFSUMMARY" not in out:
        raise vf.Inconclusive("case driver failed (rc=%s):\n%s" % (rc, out[-3000:]))
    real = vf.read_ndjson(rp)
    verdicts, tr = validate_vectors(ctx, "replay", real, 300)
    groups = report(ctx, verdicts, {(v["id"], v["part"]): v for v in real}, "replayed vectors")
    ctx.log("replayed %d vectors: %s" % (len(real), {k: len(v) for k, v in groups.items()}))
    ctx.cov = dict(states=tr.distinct, transitions=tr.generated, traces_validated_against_impl=len(real),
                   replay_of=ctx.replay, samples=[real[0]])


def run(ctx):
    quick = ctx.tier == "quick"
    ctx.level = "model_checking"
    seed = ctx.seed
    if getattr(ctx, "replay", None):
        return replay(ctx)

    # ---- 1. model pass + case generation (one TLC state per case)
    cfg = "Gen_Topology_quick.cfg" if quick else "Gen_Topology_thorough.cfg"
    cases, gen, nlayouts = generate_cases(ctx, cfg, 300 if quick else 1500)
    for i, c in enumerate(cases):
        c["id"] = i + 1
        # input variations the reference is indifferent to: option value type, partitioner
        c["form"] = "str" if (i + seed) % 2 else "int"
        c["parts"] = PARTS if len(c["ring"]) <= 3 else [PARTS[(i + seed) % 3]]
        # ... and liveness: in every third case one node is DOWN while the ring and the replica map are built
        c["down"] = [1 + ((i // 3 + seed) % len(c["dc"]))] if (i + seed) % 3 == 0 else []
        # ... the layout of the tokens in the partitioner's token space (whole range, extremes, around zero)
        c["spread"] = SPREADS[(i // 2 + seed) % len(SPREADS)]
        # ... and, every fourth case, the map is additionally built by a real token aware policy (every
        # fallback / option combination in turn) and read again after queries were routed through it
        c["pol"] = POLS[(i // 4 + seed) % len(POLS)] if (i + seed) % 4 == 1 else ""
        # ... followed by an update that cannot be carried out (ALTER KEYSPACE to an unsupported placement, failing
        # keyspace metadata lookup at a schema event / while a node leaves)
        # ... the spelling of the datacenter names in host rows and keyspace options (upper case, names differing
        # only in case as different datacenters, surrounding blanks)
        c["dcnames"] = DCNAMES[(i // 5 + seed) % len(DCNAMES)]
        c["fault"] = FAULTS[(i // 4 + i // 48 + seed) % len(FAULTS)] if c["pol"] else ""
    cp = os.path.join(ctx.tmp, "cases.ndjson")
    vf.write_ndjson(cp, [{k: v for k, v in c.items() if k != "exp"} for c in cases])
    ctx.log("generated %d cases (%d rings x layouts)" % (len(cases), nlayouts))
    ncases = len(cases)
    sample_case = cases[ncases * 2 // 3]
    # keep only what the comparison needs (memory: the thorough tier has several 10^5 cases)
    byid = {c["id"]: (c["exp"], c["tokens"], c["look"], len(set(c["ring"])) < len(c["ring"]) or len(set(c["dc"])) > 1)
            for c in cases}
    want = sum(len(c["parts"]) for c in cases)
    del cases

    # ---- 2. execute on the real code
    binary = vf.build_gotest(ctx, ".", harness_dirs("c10"))
    rp = os.path.join(ctx.tmp, "results.ndjson")
    rc, out = vf.run_gotest(ctx, binary, "^TestVfC10Cases$", env={"VF_CASES": cp, "VF_RESULTS": rp}, timeout=900)
    m = re.search(r"^VFSUMMARY (.*)$", out, re.M)
    if not m or rc != 0:
        raise vf.Inconclusive("case driver failed (rc=%s):\n%s" % (rc, out[-3000:]))
    nexec = json.loads(m.group(1))["executed"]
    if nexec != want:
        raise vf.Inconclusive("case driver executed %d of %d" % (nexec, want))

    # ---- 3. exact agreement, else TLC decides on the real output
    agree, differ, sampled = 0, [], []
    lookups = 0
    nontrivial = set()
    with open(rp) as f:
        for n, line in enumerate(f):
            vec = json.loads(line)
            c = byid[vec["id"]]
            lookups += len(vec["look"])
            if exact_agreement(c, vec):
                agree += 1
                if c[3]:
                    nontrivial.add(vec["id"])
                if n % (97 if quick else 997) == 0:
                    sampled.append(vec)
            else:
                differ.append(vec)
    ctx.log("real code: %d vectors, %d lookups; exact agreement %d, handed to TLC %d (+%d agreeing as binding sample)" % (
        nexec, lookups, agree, len(differ), len(sampled)))
    vecs = differ + sampled
    bykey = {(v["id"], v["part"]): v for v in vecs}
    verdicts, tr1 = validate_vectors(ctx, "cases", vecs, 900 if quick else 1800)
    agreeing = {(v["id"], v["part"]) for v in sampled}
    for k in verdicts:
        if k in agreeing:
            raise vf.Inconclusive("TLC rejects a vector that equals the reference exactly: %s" % (verdicts[k],))
    groups = report(ctx, verdicts, bykey, "enumerated rings")
    # not the reference's list element for element, yet every property predicate holds (the property fixes the
    # set and the first element only, the driver orders the rest differently): counted, not drift
    reordered = [v for v in differ if (v["id"], v["part"]) not in verdicts]
    ctx.log("enumerated: %s" % {k: len(v) for k, v in groups.items()})

    # ---- 4. code -> spec: random larger rings, vectors validated by TLC
    nrand = 1000 if quick else 6000
    vp = os.path.join(ctx.tmp, "random.ndjson")
    rc, out = vf.run_gotest(ctx, binary, "^TestVfC10Random$", env={"VF_RESULTS": vp, "VF_COUNT": nrand}, timeout=600)
    if rc != 0 or "VFSUMMARY" not in out:
        raise vf.Inconclusive("random driver failed (rc=%s):\n%s" % (rc, out[-3000:]))
    rvecs = vf.read_ndjson(vp)
    if len(rvecs) != nrand:
        raise vf.Inconclusive("random driver wrote %d of %d vectors" % (len(rvecs), nrand))
    rby = {(v["id"], v["part"]): v for v in rvecs}
    rverd, tr2 = validate_vectors(ctx, "random", rvecs, 900 if quick else 1800)
    rgroups = report(ctx, rverd, rby, "random rings (seed %d)" % seed)
    ctx.log("random: %d vectors, %s" % (len(rvecs), {k: len(v) for k, v in rgroups.items()}))

    # ---- evidence
    sample_vec = (differ or sampled)[0]
    ctx.cov = dict(
        states=gen.distinct + (tr1.distinct if tr1 else 0) + (tr2.distinct if tr2 else 0),
        transitions=gen.generated + (tr1.generated if tr1 else 0) + (tr2.generated if tr2 else 0),
        traces_validated_against_impl=nexec + len(rvecs),
        exhaustive=True,
        enumerated_cases=ncases, vectors_executed=nexec, lookups_compared=lookups,
        exact_agreement=agree, decided_by_tlc_predicates=len(vecs), order_only_differences=len(reordered),
        nontrivial_agreeing_cases=len(nontrivial),
        random_vectors=len(rvecs), random_vectors_failing=len(rverd),
        classes={k: len(v) for k, v in groups.items()}, random_classes={k: len(v) for k, v in rgroups.items()},
        generator_cfg=cfg,
        samples=[dict(kind="generated case with reference", case=sample_case),
                 dict(kind="real vector evaluated by TLC", vector=sample_vec,
                      verdict=verdicts.get((sample_vec["id"], sample_vec["part"]), "property holds")),
                 dict(kind="random vector", vector={k: v for k, v in rvecs[0].items() if k != "map"})],
    )
    ctx.assumptions += [
        "reference = Cassandra 4.x SimpleStrategy / NetworkTopologyStrategy.calculateNaturalReplicas as transcribed in "
        "spec/Topology.tla; nodes without tokens are outside the quantifier (every node owns >= 1 token)",
        "abstract integer tokens are mapped to partitioner tokens by a monotone map in the harness (glue, trusted)",
        "exhaustive over the bounds of %s; larger rings only by seeded random vectors" % cfg,
    ]
