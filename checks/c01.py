"""C01 - every response reaches the request that caused it.  Conn.tla + recorded executions."""
import conn_common


def run(ctx):
    conn_common.run_conn(ctx, "C01")
