"""C05 - no bytes from the network can crash the application.

spec -> code (binding D(i), oracle observational):
  spec/Gen_Malformed.tla     structure-aware malformation of the well-formed response frames of the
                             C04 family (annotated variant of WireResp.tla, checked against it per case)
  spec/Gen_MalformedVal.tla  (type, bytes) pairs for Unmarshal
  spec/Gen_TypeStrings.tla   type strings of the schema tables (both grammars), component_index
  spec/Gen_Positions.tla     the handshake / session conversation composed with "the node may answer
                             any request with any well-formed frame kind"
  harness/c05                feeds every input to the real code in re-executed child processes
                             (readHeader / readFrame / parseFrame, handleEvent, Iter.Scan / Scanner /
                             MapScan / SliceMap, Unmarshal into several destination kinds, parseType /
                             getCassandraType / compileMetadata, a live Session against the scripted node)
code -> spec:
  spec/Trace_Malformed.tla   TLC judges every recorded observation: allowed = {value, error, closed},
                             bytes allocated for an uncompressed fully received input <= 64*len + 8 MiB
"""
import collections, concurrent.futures as cf, hashlib, json, os, re, shutil, subprocess, tempfile, time
import vf

AS_LIMIT = 6 << 30          # address-space limit of the in-process children: an absurd allocation is a clean fatal error
LIVE_MAX_STACK = 48 << 20   # stack limit of the live children: unbounded recursion ends sooner
ID_BASE = dict(frame=0, val=100_000_000, tstr=200_000_000, live=300_000_000)
FAMS = ("frame", "val", "tstr", "live")


# ------------------------------------------------------------------ TLC generators (output streamed to a file)

def _tlc_stream(ctx, module, cfg, name, workers, heap="4g", timeout=900, simulate=None, seed=None):
    """Like vf.run_tlc but the output goes to a file: the big generators print hundreds of MB."""
    d = vf._scratch_spec_dir(ctx, "w")
    meta = tempfile.mkdtemp(prefix="meta_", dir=ctx.tmp)
    outp = os.path.join(ctx.tmp, "tlc_%s.out" % name)
    cmd = ["timeout", "-k", "10", str(timeout), "java", "-XX:+UseParallelGC", "-Xmx" + heap, "-Xss512m", "-cp", vf.JAR, "tlc2.TLC",
           "-metadir", meta, "-config", cfg, "-workers", str(workers), "-deadlock"]
    if simulate:
        cmd += ["-simulate", "num=%d" % simulate, "-depth", "2", "-seed", str(seed)]
    cmd.append(module)
    e = dict(os.environ)
    e.pop("JAVA_TOOL_OPTIONS", None)
    t0 = time.time()
    with open(outp, "w") as f:
        p = subprocess.run(cmd, cwd=d, env=e, stdout=f, stderr=subprocess.STDOUT)
    shutil.rmtree(meta, ignore_errors=True)
    tail = subprocess.run(["tail", "-n", "40", outp], stdout=subprocess.PIPE, text=True, errors="replace").stdout
    m = None
    for m in re.finditer(r"(\d+) states generated, (\d+) distinct states found", tail):
        pass
    gen, dist = (int(m.group(1)), int(m.group(2))) if m else (0, 0)
    ok = "Model checking completed. No error has been found." in tail
    if simulate:
        m = re.search(r"The number of states generated: (\d+)", tail)
        gen = dist = int(m.group(1)) if m else 0
        ok = p.returncode == 0 and m is not None and "Error:" not in tail
    ctx.log("TLC %s: gen=%d distinct=%d ok=%s %.1fs" % (name, gen, dist, ok, time.time() - t0))
    if not ok:
        head = subprocess.run(["grep", "-m", "3", "-A", "12", "Error", outp], stdout=subprocess.PIPE, text=True, errors="replace").stdout
        raise vf.Inconclusive("generator %s/%s failed (rc=%s):\n%s\n%s" % (module, cfg, p.returncode, head[-2500:], tail[-1500:]))
    return outp, gen, dist


def _cases(path):
    pre = '"CASE '
    with open(path, errors="replace") as f:
        for line in f:
            if line.startswith(pre):
                line = line.rstrip("\n")
                if line.endswith('"'):
                    yield json.loads(line[len(pre):-1].replace('\\"', '"').replace("\\\\", "\\"))


LIVE_WAITS = ("pool.heartbeat", "ctl.conn_heartbeat", "ctl.heartbeat", "unsolicited.event", "unsolicited.stream0",
              "unsolicited.unused_stream", "app.query.late_answer")


class Family:
    def __init__(self, ctx, name):
        self.name = name
        self.inp = os.path.join(ctx.tmp, "c05_%s.in.ndjson" % name)
        self.lab = os.path.join(ctx.tmp, "c05_%s.lab.ndjson" % name)
        self.n = 0
        self.states = 0
        self.transitions = 0
        self.distinct = set()
        self._fi = open(self.inp, "w")
        self._fl = open(self.lab, "w")

    def add(self, inp, lab, ident):
        cid = ID_BASE[self.name] + self.n
        inp = dict(id=cid, k=self.name, **inp)
        self._fi.write(json.dumps(inp, separators=(",", ":")) + "\n")
        self._fl.write(json.dumps(lab, separators=(",", ":")) + "\n")
        self.distinct.add(hashlib.md5(ident.encode()).digest()[:8])
        self.n += 1

    def close(self):
        self._fi.close()
        self._fl.close()


def _generate(ctx, quick):
    """Runs the four generators side by side; returns the families."""
    fams = {k: Family(ctx, k) for k in FAMS}
    jobs = []
    if quick:
        jobs.append(("frame", "Gen_Malformed", "Gen_Malformed_quick.cfg", 4))
    else:
        for i in range(1, 6):
            jobs.append(("frame", "Gen_Malformed", "Gen_Malformed_t%d.cfg" % i, 4))
    tier = "quick" if quick else "thorough"
    jobs.append(("frame", "Gen_Malformed", "Gen_Malformed_sim_%s.cfg" % tier, 1 if quick else 4))
    jobs.append(("val", "Gen_MalformedVal", "Gen_MalformedVal_%s.cfg" % tier, 2 if quick else 4))
    jobs.append(("tstr", "Gen_TypeStrings", "Gen_TypeStrings_%s.cfg" % tier, 1))
    jobs.append(("live", "Gen_Positions", "Gen_Positions_%s.cfg" % tier, 1))

    def gen(j):
        fam, module, cfg, workers = j
        sim = (3000 if quick else 120000) if "_sim_" in cfg else None
        return j, _tlc_stream(ctx, module, cfg, os.path.splitext(cfg)[0], workers, heap="4g" if quick else "6g",
                              timeout=300 if quick else 1500, simulate=sim, seed=ctx.seed)

    with cf.ThreadPoolExecutor(5) as ex:
        results = list(ex.map(gen, jobs))
    for (fam, module, cfg, _), (outp, gen_, dist) in results:
        F = fams[fam]
        F.states += dist
        F.transitions += gen_
        n0 = F.n
        live = []
        for c in _cases(outp):
            if fam == "frame":
                b = c.pop("bytes")
                F.add(dict(v=c["v"], bytes=b), c, "%d:%s" % (c["v"], bytes(b).hex()))
            elif fam == "val":
                b, t = c.pop("bytes"), c.pop("type")
                F.add(dict(proto=c["proto"], type=t, bytes=b), c, "%s:%d:%s" % (c["tname"], c["proto"], bytes(b).hex()))
            elif fam == "tstr":
                F.add(dict(g=c["g"], s=c["s"], v=c["v"], i=c["i"]), c, "%s:%s:%d:%d" % (c["g"], c["s"], c["v"], c["i"] if c["g"] == "aggregate" else 0))
            else:
                live.append(c)
        if fam == "live":
            # cases that have to wait (heartbeats, event debounce) next to each other: a child runs a group side by side
            live.sort(key=lambda c: (c["pos"] not in LIVE_WAITS, c["pos"], c["cfg"], c["variant"]))
            # once: only the first request at the position gets the frame, the session then goes on
            # with a node that follows the protocol (quick: a seeded eighth of the cases, thorough: all)
            for once in (False, True):
                for n, c in enumerate(live):
                    if once and quick and (n + ctx.seed) % 8 != 0:
                        continue
                    b = c["bytes"]
                    lab = {k: v for k, v in c.items() if k != "bytes"}
                    lab["once"] = once
                    F.add(dict(live=dict(cfg=c["cfg"], pos=c["pos"], req=c["req"], variant=c["variant"], kind=c["kind"], bytes=b,
                                         once=once)), lab, "%s:%s:%s:%s" % (c["cfg"], c["pos"], c["variant"], once))
        os.remove(outp)
        if F.n == n0:
            raise vf.Inconclusive("generator %s/%s printed no cases" % (module, cfg))
        if fam != "live" and "_sim_" not in cfg and F.n - n0 > dist:
            raise vf.Inconclusive("generator %s/%s printed %d cases for %d states" % (module, cfg, F.n - n0, dist))
    for F in fams.values():
        F.close()
    if quick:
        # the order of execution (and with it the grouping into child processes) follows the seed
        import random
        for k in ("frame", "val", "tstr"):
            with open(fams[k].inp) as f:
                lines = f.readlines()
            random.Random(ctx.seed).shuffle(lines)
            with open(fams[k].inp, "w") as f:
                f.writelines(lines)
    return fams


# ------------------------------------------------------------------ classification of forbidden observations -> keys

def _msg_class(msg):
    m = msg
    table = [
        (r"slice bounds out of range", "slice-bounds"),
        (r"index out of range", "index-out-of-range"),
        (r"makeslice: len out of range", "makeslice-len"),
        (r"reflect\.MakeSlice: negative len", "makeslice-negative-len"),
        (r"reflect\.MapOf: invalid key type", "mapof-invalid-key"),
        (r"invalid memory address or nil pointer", "nil-deref"),
        (r"interface conversion", "interface-conversion"),
        (r"stack overflow|stack exceeds", "stack-overflow"),
        (r"out of memory|cannot allocate|pthread_create failed|SIGABRT: abort", "out-of-memory"),
        (r"unknown frame in response to options", "unknown-frame-in-response-to-options"),
        (r"not enough bytes in buffer", "not-enough-bytes"),
        (r"no valid connect address", "no-valid-connect-address"),
        (r"all goroutines are asleep|deadlock", "deadlock"),
    ]
    for pat, cls in table:
        if re.search(pat, m):
            return cls
    m = re.sub(r"^(panic|fatal error): ", "", m)
    m = re.sub(r"[^A-Za-z]+", "-", m).strip("-").lower()
    return "-".join(m.split("-")[:6]) or "unknown"


def _slug(s):
    return re.sub(r"[^A-Za-z0-9_.]+", "-", s).strip("-") or "unknown"


def classify(fam, lab, o, why):
    """Key of one forbidden observation: the root cause by SITE (the driver function that panicked /
    allocated) with the names DESIGN.md section 9 uses for the confirmed ones."""
    site, via, cls, st = o.get("site") or "?", o.get("via") or "", _msg_class(o.get("msg", "")), o["st"]
    if why == "allocation" or cls == "out-of-memory":
        alias = {
            "framer.parsePreparedMetadata": "prepared-huge-pkcount-alloc",
            "unmarshalList": "unmarshal-huge-collection-length-alloc",
            "unmarshalMap": "unmarshal-huge-map-size-alloc",
            "Iter.SliceMap": "rows-without-columns-huge-rowcount-alloc",
            "framer.readTypeInfo": "typeinfo-nested-element-count-alloc",
            "compileV2Metadata": "schema-component-index-out-of-range",
        }
        if site in alias:
            return alias[site]
        if site == "?":
            what = lab.get("f") or lab.get("variant") or lab.get("mk") or ""
            return "alloc-unattributed-%s-%s" % (st, _slug(str(what)))
        return "alloc-" + _slug(site)
    if (o["out"] == "hang" or o.get("msg", "").startswith("SIGQUIT")) and "recursion" in o.get("msg", ""):
        cls = "stack-overflow"      # the same unbounded recursion, caught before the stack limit was reached
    elif o["out"] == "hang" or o.get("msg", "").startswith("SIGQUIT"):
        return "hang-%s-%s" % (fam, _slug(lab.get("pos", st)))
    if site == "framer.readInetAdressOnly":
        opcode_event = str(lab.get("kind", "")).startswith("EVENT") or (lab.get("f") == "header.opcode" and lab.get("val") == 12)
        return "event-short-inet" if opcode_event or st == "event" else "error-reasonmap-short-inet"
    if site == "framer.parsePreparedMetadata" and cls == "makeslice-len":
        return "prepared-negative-pkcount"
    if site == "unmarshalList" and cls == "makeslice-negative-len":
        return "unmarshal-negative-collection-length"
    if site == "readBytes" and cls == "slice-bounds":
        return {"unmarshalTuple": "unmarshal-tuple-field-overrun", "unmarshalUDT": "unmarshal-udt-field-overrun"}.get(via, "unmarshal-field-overrun-" + _slug(via))
    if site == "framer.readInt" and via == "framer.readBytesInternal" and cls == "not-enough-bytes":
        return "iter-short-rows-panic"
    if site == "unmarshalDate":
        return "unmarshal-date-short"
    if site == "goType" and cls == "mapof-invalid-key":
        return "gotype-map-key-not-comparable"
    if site == "scanColumn" and cls == "index-out-of-range":
        return "scan-empty-tuple-column"
    if site == "typeParser.parseParamNodes":
        return "parsetype-truncated"
    if site == "typeParserClassNode.asTypeInfo":
        return "parsetype-collection-without-params"
    if site == "typeParser.parse":
        return "parsetype-collection-param-without-name" if cls == "nil-deref" else "parsetype-composite-or-reversed-without-params"
    if site == "compileMetadata" and lab.get("g") == "aggregate":
        return "schema-aggregate-function-missing-nil-deref"
    if site in ("compileV1Metadata", "compileMetadata") and fam == "tstr" and lab.get("g") != "compidx":
        return "schema-composite-without-types"
    if site == "compileV2Metadata" or (site in ("compileV1Metadata", "compileMetadata") and lab.get("g") == "compidx"):
        return "schema-component-index-out-of-range"
    if site in ("Conn.executeQuery", "Conn.executeQueryAttempt", "Conn.executeBatch", "Conn.executeBatchAttempt") and cls == "index-out-of-range":
        return "prepared-bind-metadata-without-columns"
    if site == "Session.routingKeyInfo" and cls == "index-out-of-range":
        return "routingkey-pk-index-beyond-columns"
    if site == "createRoutingKey" and cls == "index-out-of-range":
        return "routingkey-pk-index-beyond-values"
    if site in ("iterScanner.Scan", "iterScanner.Next") and cls == "index-out-of-range":
        return "scanner-later-page-more-columns"
    if site == "HostInfo.ConnectAddress":
        return "hostinfo-no-connect-address-panic"
    if site == "startupCoordinator.authenticateHandshake" and cls == "nil-deref":
        return "auth-challenge-nil-challenger"
    if site == "Conn.heartBeat" and cls == "unknown-frame-in-response-to-options":
        return "heartbeat-unexpected-frame-panic"
    if site == "controlConn.heartBeat" and cls == "unknown-frame-in-response-to-options":
        return "control-heartbeat-unexpected-frame-panic"
    if cls == "stack-overflow":
        cycle = site + " " + via
        if re.search(r"awaitSchemaAgreement|querySystemPeers|Conn\.query\b", cycle):
            return "unbounded-recursion-schema-change-answer"
        if "executeBatch" in site:
            return "unbounded-recursion-unprepared-batch"
        if "executeQuery" in site:
            return "unbounded-recursion-unprepared-query"
        return "unbounded-recursion-" + _slug(site)
    return "%s-%s-%s" % (o["out"], _slug(site), cls)


# ------------------------------------------------------------------ the run

def run(ctx):
    quick = ctx.tier == "quick"
    ctx.level = "exploration"
    replay = getattr(ctx, "replay", None)
    t0 = time.time()

    # ---- 1. inputs from TLC, test binary
    with cf.ThreadPoolExecutor(2) as ex:
        fb = ex.submit(vf.build_gotest, ctx, ".", ["common", "c05"])
        if replay:
            fams = _replay_inputs(ctx, replay)
        else:
            fams = _generate(ctx, quick)
        binary = fb.result()
    ctx.log("inputs: " + ", ".join("%s=%d" % (k, fams[k].n) for k in FAMS))

    # ---- 2. the real code executes them (child processes)
    par_in = 6 if quick else 10
    par_live = 8

    def drive(which):
        td = time.time()
        try:
            return _drive(which)
        finally:
            ctx.log("harness %s took %.1fs" % (which, time.time() - td))

    def _drive(which):
        if which == "inproc":
            specs = ["%s:%d:%d:1" % (fams[k].inp, par_in, 40) for k in ("frame", "val", "tstr") if fams[k].n]
            env = {"VF_C05_INPUTS": ",".join(specs), "VF_C05_PAR": par_in, "VF_C05_ASLIMIT": AS_LIMIT}
        else:
            specs = ["%s:%d:%d:%d" % (fams["live"].inp, par_live, 4000, 24)] if fams["live"].n else []
            env = {"VF_C05_INPUTS": ",".join(specs), "VF_C05_PAR": par_live, "VF_C05_MAXSTACK": LIVE_MAX_STACK}
        if not specs:
            return which, dict(inputs=0, shards=0, deaths=0, unconfirmed=0, flaky=None)
        rc, out = vf.run_gotest(ctx, binary, "^TestVfC05Run$", env=env, timeout=600 if quick else 2400, check=False)
        m = re.search(r"^VFC05SUMMARY (.*)$", out, re.M)
        if not m or "--- PASS" not in out:
            raise vf.Inconclusive("harness (%s) failed (rc=%s):\n%s" % (which, rc, out[-3000:]))
        return which, json.loads(m.group(1))

    with cf.ThreadPoolExecutor(2) as ex:
        summ = dict(ex.map(drive, ["inproc", "live"]))
    ctx.log("harness: %s" % summ)
    flaky = [x for s in summ.values() for x in (s.get("flaky") or [])]

    # ---- 3. TLC judges the observations
    CL = 1 << 30
    nshard = 4 if quick else 8
    tpaths = [os.path.join(ctx.tmp, "c05_trace_%d.ndjson" % i) for i in range(nshard)]
    tfiles = [open(p, "w") for p in tpaths]
    tcount = [0] * nshard
    nobs = 0
    outcomes = collections.Counter()
    stages = collections.Counter()
    not_reached = collections.Counter()
    reached = collections.Counter()
    stuck = []
    nres = collections.Counter()
    k = 0
    for fam in FAMS:
        F = fams[fam]
        if not F.n:
            continue
        rp = F.inp + ".res"
        if not os.path.exists(rp):
            raise vf.Inconclusive("no results for family %s" % fam)
        with open(rp) as f, open(F.lab) as fl:
            labs = None
            if fam == "live":
                labs = [json.loads(x) for x in fl]
            for line in f:
                r = json.loads(line)
                nres[fam] += 1
                obs = []
                for o in r["obs"]:
                    if o["out"] == "not-reached":
                        lab = labs[r["id"] - ID_BASE["live"]]
                        not_reached[lab["pos"]] += 1
                        continue
                    if o["out"] == "stuck":
                        stuck.append(r["id"])
                        continue
                    if o["out"] in ("unknown-kind", "bad-type", "bad-live-case", "unknown-grammar", "unimplemented", "died-unconfirmed"):
                        raise vf.Inconclusive("harness could not execute input %d: %s" % (r["id"], o))
                    obs.append(dict(st=o["st"], out=o["out"], alloc=min(int(o["alloc"]), CL), meas=bool(o["meas"])))
                    outcomes[fam + ":" + o["out"]] += 1
                    stages[o["st"]] += 1
                if fam == "live":
                    lab = labs[r["id"] - ID_BASE["live"]]
                    if not any(o["out"] == "not-reached" for o in r["obs"]):
                        reached[lab["pos"]] += 1
                if not obs:
                    continue
                nobs += len(obs)
                i = k % nshard
                k += 1
                tfiles[i].write(json.dumps(dict(id=r["id"], len=max(int(r["len"]), 0), obs=obs), separators=(",", ":")) + "\n")
                tcount[i] += 1
        if nres[fam] != F.n:
            raise vf.Inconclusive("family %s: %d results for %d inputs" % (fam, nres[fam], F.n))
    for f in tfiles:
        f.close()
    if fams["live"].n and not replay:
        # every position of the model must have been reached by the real session at least once
        with open(fams["live"].lab) as fl:
            allpos = {json.loads(x)["pos"] for x in fl}
        dead = sorted(p for p in allpos if reached[p] == 0)
        if dead:
            raise vf.Inconclusive("positions of Gen_Positions the live session never reached (harness out of date): %s" % dead)

    def validate(i):
        if not tcount[i]:
            return i, None
        return i, vf.run_tlc(ctx, "Trace_Malformed", "Trace_Malformed.cfg", workers=1, heap="3g" if quick else "6g",
                             timeout=900 if quick else 2400, env={"VF_TRACE": tpaths[i]}, deadlock=False, name="judge_%d" % i, quiet=True)

    bad = {}
    tstates = ttrans = 0
    with cf.ThreadPoolExecutor(nshard) as ex:
        for i, r in ex.map(validate, range(nshard)):
            if r is None:
                continue
            done = vf.tlc_printed(r.out, "MONDONE")
            if not r.ok or not done or done[-1]["n"] != tcount[i]:
                raise vf.Inconclusive("judging shard %d failed: %s\n%s" % (i, r.error or r.violated, r.out[-2500:]))
            tstates += r.distinct
            ttrans += r.generated
            for mv in vf.tlc_printed(r.out, "MONVIOL"):
                bad[mv["id"]] = mv["bad"]
    ctx.log("TLC judged %d observations of %d inputs: %d inputs with a forbidden observation" % (nobs, sum(tcount), len(bad)))

    # ---- 4. binding probe: a recorded observation falsified by hand must be rejected
    _probe(ctx, tpaths, tcount, bad)

    # ---- 5. witnesses and keys
    agg = collections.OrderedDict()
    not_executed = []
    for fam in FAMS:
        F = fams[fam]
        base = ID_BASE[fam]
        want = {i for i in bad if base <= i < base + 100_000_000}
        if not want:
            continue
        idre = re.compile(r'\{"id":(\d+)')
        res, inps, labs = {}, {}, {}
        with open(F.inp + ".res") as fr:
            for line in fr:
                m = idre.match(line)
                if m and int(m.group(1)) in want:
                    res[int(m.group(1))] = json.loads(line)
        with open(F.inp) as fi:
            for line in fi:
                m = idre.match(line)
                if m and int(m.group(1)) in want:
                    inps[int(m.group(1))] = json.loads(line)
        with open(F.lab) as fl:
            for n, line in enumerate(fl):
                if base + n in want:
                    labs[base + n] = json.loads(line)
        for cid in sorted(want):
            lab, inp, r = labs[cid], inps[cid], res[cid]
            # judged observations only (the order TLC indexed)
            judged = [o for o in r["obs"] if o["out"] not in ("not-reached", "stuck")]
            for b in bad[cid]:
                o = judged[b["i"] - 1]
                if fam == "live" and lab.get("cfg") == "nocontrol" and str(o.get("site", "")).startswith("controlConn."):
                    # safety net: the unexported test-only switch leaves Session.control nil; a crash under
                    # controlConn.* with it is not the network's doing: the case counts as not executed
                    not_executed.append(cid)
                    continue
                key = classify(fam, lab, o, b["why"])
                agg.setdefault(key, []).append((fam, lab, inp, o, b["why"], r.get("stack", "")))
    for key, lst in agg.items():
        fam, lab, inp, o, why, stack = lst[0]
        where = collections.Counter("%s/%s" % (x[0], x[3]["st"]) for x in lst)
        what = "%s: %s at %s%s [%s]; input %s; %d observation(s) with this key (%s)" % (
            "allocation out of proportion (%d bytes for %d received)" % (o["alloc"], len(inp.get("bytes", inp.get("s", "")))) if why == "allocation"
            else o["out"], o.get("msg", "")[:160], o.get("site", "?"), (" <- " + o["via"]) if o.get("via") else "", o["st"],
            json.dumps(lab, separators=(",", ":"))[:300], len(lst), ", ".join("%s x%d" % kv for kv in where.most_common(6)))
        ctx.violation(key, what, dict(family=fam, label=lab, input=inp, observation=o, why=why, stack=stack[:3000],
                                      others=[dict(label=x[1], stage=x[3]["st"]) for x in lst[1:12]]))
    if not_executed:
        ctx.notes.append("%d live case(s) under the test-only nocontrol configuration ended under controlConn.* (nil control connection): "
                         "not executed, not judged" % len(not_executed))
    if flaky and not agg:
        # never "held" with an unexplained death; (with violations found the deaths are usually their aftermath:
        # the harness goes on after a recovered panic of the application's goroutine)
        raise vf.Inconclusive("a child process died while running a group of live inputs none of which dies alone: %s" % flaky[:3])
    if flaky:
        ctx.notes.append("child deaths not attributable to a single input (aftermath of recovered panics?): %s" % flaky[:5])
    if stuck:
        ctx.add_drift("Session.Close did not return within 5 s after %d live cases (a C06/C17 matter, not judged here), e.g. input %d" % (
            len(stuck), stuck[0]))
    if not_reached:
        ctx.notes.append("live cases whose position was not reached by that session (not judged): %s" % dict(not_reached))

    # ---- evidence
    sample = None
    for fam in FAMS:
        F = fams[fam]
        if not F.n or not os.path.exists(F.inp + ".res"):
            continue
        with open(F.inp) as fi, open(F.lab) as fl, open(F.inp + ".res") as fr:
            labs0 = fl.readline()
            inp = None
            for li in fi:
                inp = json.loads(li)
                if inp["id"] == ID_BASE[fam]:
                    break
            for lr in fr:
                first = json.loads(lr)
                if first["id"] == ID_BASE[fam]:
                    sample = dict(family=fam, label=json.loads(labs0), input=inp, observations=first["obs"])
                    break
        if sample:
            break
    ctx.cov = dict(
        evaluations=nobs,
        distinct_nontrivial=sum(len(fams[k].distinct) for k in FAMS),
        rule="distinct inputs (frame bytes x protocol version; type x framing x value bytes; type string; configuration x position x "
             "answer) generated by TLC and executed on the real code; every one is judged by TLC on all its observations",
        inputs={k: fams[k].n for k in FAMS},
        generator_states=sum(fams[k].states for k in FAMS), generator_transitions=sum(fams[k].transitions for k in FAMS),
        judge_states=tstates,
        observations_by_outcome=dict(outcomes), observations_by_entry_point=dict(stages),
        child_processes=dict(summ), live_positions_reached=dict(reached),
        inputs_with_forbidden_observation=len(bad), distinct_violation_keys=len(agg),
        allocation_bound="64*len + 8 MiB",
        samples=[sample],
    )
    if replay:
        ctx.notes.append("replay of %d recorded input(s)" % sum(fams[k].n for k in FAMS))
    ctx.assumptions += [
        "the input space is infinite: what is decided is the enumerated malformation family (every truncation offset, every "
        "length/count/code/flag field of the bounded well-formed base set) and every (position, answer kind) pair of the conversation",
        "allocation is judged for uncompressed, fully received inputs only, against 64*len + 8 MiB: allocations bounded by a [short] "
        "count (at most 65535 entries, observed up to 6 MB) stay below it on purpose; counts that an [int] announces do not",
        "the loops of Scan / Scanner / MapScan are the application's: for them the largest allocation of a single call is judged; "
        "SliceMap loops inside the driver and is judged as a whole",
        "in-process entry points are called as conn.go / events.go call them (no recover of their own): a panic that leaves the entry "
        "point is a panic of the calling goroutine; the live cases confirm it on the driver's own goroutines (process exit status)",
        "children of the in-process families run under a 6 GiB address-space limit (an absurd allocation is a fatal error of the child), "
        "children of the live cases under a 48 MiB stack limit (unbounded recursion overflows sooner)",
        "compressed bodies are not generated (codec robustness is C18); a compression flag without a compressor is",
    ]
    ctx.log("done in %.1fs" % (time.time() - t0))


def _probe(ctx, tpaths, tcount, bad):
    """Self-test of the binding: take a record TLC accepted, falsify one field (outcome -> panic; allocation
    above the bound) and see TLC reject exactly the falsified copies."""
    rec = None
    for i, p in enumerate(tpaths):
        if not tcount[i]:
            continue
        with open(p) as f:
            for line in f:
                r = json.loads(line)
                if r["id"] not in bad and any(o["meas"] for o in r["obs"]):
                    rec = r
                    break
        if rec:
            break
    if rec is None:
        return
    a = json.loads(json.dumps(rec)); a["id"] = 1
    b = json.loads(json.dumps(rec)); b["id"] = 2; b["obs"][0]["out"] = "panic"
    c = json.loads(json.dumps(rec)); c["id"] = 3
    j = [i for i, o in enumerate(c["obs"]) if o["meas"]][0]
    c["obs"][j]["alloc"] = 64 * c["len"] + (8 << 20) + 1
    d = json.loads(json.dumps(c)); d["id"] = 4; d["obs"][j]["alloc"] -= 1
    pp = os.path.join(ctx.tmp, "c05_probe.ndjson")
    vf.write_ndjson(pp, [a, b, c, d])
    t = vf.run_tlc(ctx, "Trace_Malformed", "Trace_Malformed.cfg", workers=1, timeout=300, env={"VF_TRACE": pp}, deadlock=False,
                   name="judge_probe", quiet=True)
    got = {mv["id"]: [x["why"] for x in mv["bad"]] for mv in vf.tlc_printed(t.out, "MONVIOL")}
    if not t.ok or got != {2: ["outcome"], 3: ["allocation"]}:
        raise vf.Inconclusive("binding probe failed: falsified observations were judged %s" % got)


def _replay_inputs(ctx, path):
    rp = json.load(open(path))
    fams = {k: Family(ctx, k) for k in FAMS}
    for v in rp.get("violations", []):
        d = v.get("detail") or {}
        if "input" not in d:
            continue
        fam = d["family"]
        inp = {k: x for k, x in d["input"].items() if k not in ("id", "k")}
        fams[fam].add(inp, d["label"], json.dumps(inp, sort_keys=True))
    for F in fams.values():
        F.close()
    if not sum(F.n for F in fams.values()):
        raise vf.Inconclusive("replay file %s holds no C05 input" % path)
    return fams
