"""C02 - Marshal then Unmarshal gives back the value (no silent loss of precision).

Case matrix from the documented conversion tables (spec/Cql.tla: Supported, Target, FitsKind,
ConvOut), enumerated by TLC (Gen_Cql.tla): for every (CQL type, source Go kind, boundary value,
protocol) the real Marshal either fails or its *own* output, fed to the real Unmarshal, gives an
equal value in the same Go type and in every other documented target that can represent the
value; null / empty / zero keep their meanings (nil pointers, **T targets, zero-length values,
zero time.Time), recursively inside collections, tuples and UDTs.  Which targets apply and what
each must hold comes from the specification.  Seeded random vectors recorded from the real code
are judged by TLC (Trace_Cql.tla).  Machinery shared with C12 (checks/c12.py).
"""
import c12
import vf


def run(ctx):
    ctx.level = "exploration"
    if getattr(ctx, "replay", None):
        return c12.replay_run(ctx, "C02")
    cases, results, recs, verdicts = c12.collect(ctx)
    st = c12.Stats()
    for c in cases:
        r = results[c["id"]]
        if not c["claimed"]:
            st["unclaimed"] += 1
            continue
        s = r["res"]["st"]
        if s == "panic":
            ctx.violation(c12.key_for(c, r["res"], c["spec"], "enc", "panic"), "Marshal panicked on %s: %s" % (c12.show(c), r["res"].get("err")),
                          dict(case=c, result=r))
        elif s == "err":
            if c["conv"] == "ok" and not c["ref"]:
                ctx.add_drift("Marshal refuses a documented, encodable value (%s): %s" % (c12.show(c), r["res"].get("err")))
            st["marshal_refused"] += 1
        else:
            st["marshal_ok"] += 1
    c12.judge_decoding(ctx, cases, results, st, "real")
    c12.judge_vectors(ctx, recs, verdicts, st, "C02")
    c12.judge_big(ctx, st, "C02")
    c12.judge_later_decodes(ctx, cases, results, ctx.extra["laters"], st)
    c12.judge_concurrent_decodes(ctx, cases, results, st, ("real", "spec"))
    ctx.log("stats: %s" % dict(st))
    # distinct non-trivial: a documented source whose real encoding was decoded into at least one
    # documented target and compared with the specification's expected value
    seen = set()
    for c in cases:
        r = results[c["id"]]
        if c["claimed"] and r["res"]["st"] in ("ok", "null") and any("real" in d for d in r["decs"]):
            seen.add(c12.json.dumps([c["T"], c["p"], c["K"], c["gv"]], sort_keys=True))
    picks = [c for c in cases if c["fam"] in ("int", "null", "nested3", "timestamp", "ptr") and results[c["id"]]["res"]["st"] != "err"]
    step = max(1, len(picks) // 5)
    ctx.cov = dict(
        evaluations=st["rt_evaluations"] + st["vec_decodes"],
        distinct_nontrivial=len(seen),
        rule="one evaluation = Unmarshal(Marshal(v)) into one target kind (each run three times: fresh destination, destination pre-filled "
             "with other content of the same type, long-lived destination reused across cases) compared with the value the specification expects there "
             "(targets = documented kinds that can represent v, incl. the source's own kind, *T, **T, named kinds); cases = (CQL type, "
             "protocol, source Go kind, boundary value) enumerated by Gen_Cql.tla; a case is non-trivial when the pair is documented, "
             "Marshal produced a value and at least one target was decoded and compared; distinct by (type, protocol, kind, value)",
        cases=len(cases), cases_unclaimed=st["unclaimed"], marshal_ok=st["marshal_ok"], marshal_refused=st["marshal_refused"],
        round_trips_equal=st["rt_equal"], decode_errors_allowed=st["rt_err_allowed"],
        round_trips_into_prefilled_or_reused_destination_identical_to_fresh=st["rt_same_as_fresh"],
        marshal_outputs_held_and_reread=ctx.extra["summ"].get("held", 0), outputs_changed_later=ctx.extra["summ"].get("changed_later", 0),
        later_round_trips=st["later_round_trips"], concurrent_decodes=ctx.extra["summ"].get("concurrent_decodes", 0),
        concurrent_decodes_differing=ctx.extra["summ"].get("concurrent_decodes_differing", 0),
        size_limit_cases=st["big_cases"], size_limit_round_trips_equal=st["big_rt_equal"], size_limit_refused=st["big_refused"],
        random_vectors=len(verdicts), random_vectors_claimed=st["vec_claimed"], random_vector_round_trips=st["vec_decodes"],
        samples=[dict(c12.sample_of(c, results[c["id"]]),
                      round_trip=[dict(target=c12.kshape(t["K"]), got=results[c["id"]]["decs"][i].get("real", {}).get("st"))
                                  for i, t in enumerate(c["targets"])][:6]) for c in picks[::step][:6]],
    )
    ctx.assumptions += [
        "the harness maps abstract values to Go values and back with the standard library only; that mapping is trusted",
        "int / uint are 64-bit (the platform the check runs on)",
        "equality is on the column's meaning: a time.Time bound to a date column is compared at day granularity, []byte nil and empty "
        "are the same Go value, net.IP is compared with net.IP.Equal semantics, instants are whole milliseconds",
        "bounded enumeration plus seeded random vectors: not a proof over all values; null elements inside protocol <= 2 collections and "
        "nil slices inside tuples are outside the claim",
    ]
