"""C19 - UUIDs parse, print and carry time faithfully; generated time-UUIDs are unique.

Uuid.tla is the oracle (RFC 4122 text form and field layout, the 1582 epoch in 100 ns ticks,
Cassandra's timeuuid order).  spec -> code: MC_Uuid.tla enumerates strings around the acceptance
boundary and timestamps / times at the field boundaries with the expected result; the Go harness
executes them on the real API.  code -> spec: seeded random observations are judged record by
record by TLC (Trace_Uuid.tla); a concurrent TimeUUID() run is checked for distinctness by TLC
(Trace_UuidConc.tla); UuidGen.tla is the design-level generator model."""
import json, os, re, concurrent.futures as cf
import vf


def _s(codes):
    """Text of a code sequence; 0x110000+b (a lone byte, invalid UTF-8) is shown as \\xNN."""
    try:
        return "".join(chr(c) if c < 0x110000 else "\\x%02x" % (c - 0x110000) for c in codes)
    except (ValueError, TypeError):
        return repr(codes)


def _hex(b):
    try:
        return bytes(b).hex()
    except (ValueError, TypeError):
        return repr(b)


def _i64(b):
    try:
        return int.from_bytes(bytes(b), "big", signed=True)
    except (ValueError, TypeError):
        return None


def _nproc(ctx):
    n = int(os.environ.get("VERIF_PROCS") or 0)
    return n or (4 if ctx.tier == "quick" else min(8, vf.NCPU))


def _summary(out, what):
    m = re.search(r"^VFSUMMARY (.*)$", out, re.M)
    if not m:
        raise vf.Inconclusive("%s gave no summary:\n%s" % (what, out[-3000:]))
    return json.loads(m.group(1))


def _pretty(r):
    d = {}
    for x, v in r.items():
        if x in ("vfn", "i", "panic"):
            continue
        if x in ("s", "str"):
            d[x] = _s(v)
        elif x in ("sec", "tsec", "ts", "t", "lo", "hi") and isinstance(v, list):
            d[x] = _i64(v)
        elif isinstance(v, list):
            d[x] = _hex(v)
        else:
            d[x] = v
    return d


def _describe(r, why, exp=None):
    k = r["k"]
    if r.get("panic"):
        return "%s: the real code panicked: %s on %s" % (k, r["panic"], json.dumps(_pretty(r))[:300])
    if k == "parse":
        call = {"parse": "ParseUUID(%r)", "text": "UnmarshalText(%r)", "json": "UnmarshalJSON of %r", "jsondec": "json.Unmarshal of %r"}[r.get("via", "parse")] % _s(r["s"])
        if r.get("pre"):
            call += " into a UUID that held %s" % _hex(r["pre"])
        return "%s: %s (accepted=%s value=%s)%s" % (call, why, r["ok"], _hex(r["u"]),
                                                              (" required " + str(exp)) if exp is not None else "")
    return "%s: %s: %s%s" % (k, why, json.dumps(_pretty(r))[:500], (" required " + json.dumps(exp)[:300]) if exp is not None else "")


VIA_NAME = {"parse": "parse", "text": "unmarshaltext", "json": "unmarshaljson", "jsondec": "jsondecode"}


def _pfx(r):
    return VIA_NAME.get(r.get("via", "parse"), "parse")


def _input_id(r):
    return json.dumps([r["k"]] + [r.get(x) for x in ("via", "pre", "s", "u" if r["k"] in ("print", "rand", "now") else "-", "t", "clock", "node", "sec", "ns", "zone")])


# ------------------------------------------------------------------ TLC sides

def _gen(ctx, cfg, env, name):
    r = vf.run_tlc(ctx, "MC_Uuid", cfg, workers=1, heap="2g", timeout=600, env=env, deadlock=False, name=name, quiet=True)
    if not r.ok:
        raise vf.Inconclusive("generator %s failed: %s\n%s" % (name, r.error or r.violated, r.out[-2000:]))
    cases = vf.tlc_printed(r.out, "CASE")
    if not cases:
        raise vf.Inconclusive("generator %s produced no cases" % name)
    return cases, r


def _validate(ctx, path, name):
    recs = vf.read_ndjson(path)
    if not recs:
        return [], [], 0
    r = vf.run_tlc(ctx, "Trace_Uuid", "Trace_Uuid.cfg", workers=1, heap="2g", timeout=900, env={"VF_TRACE": path},
                   deadlock=False, name=name, quiet=True)
    if not r.ok or r.distinct != len(recs) + 1:
        raise vf.Inconclusive("Trace_Uuid did not evaluate %s completely (ok=%s distinct=%d records=%d): %s\n%s" % (
            name, r.ok, r.distinct, len(recs), r.error, r.out[-1500:]))
    bad = [(recs[b["line"] - 1], b["why"]) for b in vf.tlc_printed(r.out, "BAD")]
    drift = [(recs[b["line"] - 1], b["what"]) for b in vf.tlc_printed(r.out, "DRIFT")]
    return bad, drift, len(recs)


def _validate_sharded(ctx, recs, tag, nproc):
    paths = []
    for i in range(nproc):
        sh = recs[i::nproc]
        if sh:
            p = os.path.join(ctx.tmp, "%s_%d.ndjson" % (tag, i))
            vf.write_ndjson(p, sh)
            paths.append(p)
    bad, drift, n = [], [], 0
    with cf.ThreadPoolExecutor(nproc) as ex:
        for b, d, k in ex.map(lambda p: _validate(ctx, p, os.path.basename(p)), paths):
            bad += b
            drift += d
            n += k
    return bad, drift, n


def _conc(ctx, path):
    r = vf.run_tlc(ctx, "Trace_UuidConc", "Trace_UuidConc.cfg", workers=1, heap="6g", timeout=1500, env={"VF_TRACE": path},
                   deadlock=False, name="conc_" + os.path.basename(path), quiet=True)
    res = vf.tlc_printed(r.out, "CONC")
    if not r.ok or not res:
        raise vf.Inconclusive("Trace_UuidConc failed on %s: %s\n%s" % (path, r.error, r.out[-1500:]))
    return path, res[0]


# ------------------------------------------------------------------ the check

def run(ctx):
    if getattr(ctx, "replay", None):
        # a replay file names the tier and seed of the failing run; the run is deterministic in them
        # (except the concurrent UUID run), so re-running with them re-executes the failing inputs
        d = json.load(open(ctx.replay))
        ctx.tier, ctx.seed = d.get("tier", ctx.tier), int(d.get("seed", ctx.seed))
        ctx.log("replaying tier=%s seed=%d (%d recorded violation(s))" % (ctx.tier, ctx.seed, len(d.get("violations", []))))
    quick = ctx.tier == "quick"
    ctx.level = "exploration"
    nproc = _nproc(ctx)
    stride = 64 if quick else 1
    nrec = 4000 if quick else 80000
    conc_g, conc_m = 16, (10000 if quick else 100000)

    # ---- 0. design-level generator model (first TLC run also creates the scratch spec copy)
    m_ok = vf.tlc_must_pass(ctx, "UuidGen", "UuidGen_ok.cfg", workers=2, heap="2g", timeout=600)
    m_wrap = vf.run_tlc(ctx, "UuidGen", "UuidGen_wrap.cfg", workers=2, heap="2g", timeout=600)
    m_na = vf.run_tlc(ctx, "UuidGen", "UuidGen_nonatomic.cfg", workers=2, heap="2g", timeout=600)
    if m_wrap.violated != "Distinct" or m_na.violated != "Distinct":
        raise vf.Inconclusive("UuidGen: the limit configurations should violate Distinct (wrap: %s, non-atomic: %s)" % (
            m_wrap.violated or m_wrap.error, m_na.violated or m_na.error))

    # ---- 1. generators
    jobs = [("MC_Uuid_parse.cfg", dict(VF_SHARD=i, VF_NSHARD=nproc, VF_STRIDE=stride, VF_WSTRIDE=8 if quick else 1,
                                       VF_SEED=ctx.seed), "gen_parse_%d" % i) for i in range(nproc)]
    jobs += [("MC_Uuid_rest.cfg", {}, "gen_rest")]
    cases, gen_states = [], 0
    with cf.ThreadPoolExecutor(nproc) as ex:
        for cs, r in ex.map(lambda j: _gen(ctx, *j), jobs):
            cases += cs
            gen_states += r.distinct
    bykind = {}
    for c in cases:
        kk = c["k"] + ("/" + c["cls"] if c["k"] == "parse" else "")
        bykind[kk] = bykind.get(kk, 0) + 1
    ctx.log("generated cases: %s" % bykind)
    cpath = os.path.join(ctx.tmp, "cases.ndjson")
    vf.write_ndjson(cpath, cases)

    # ---- 2. build
    hd = ["uuid"]
    if any(f.endswith(".go") for f in os.listdir(os.path.join(vf.HARNESS, "common"))):
        hd = ["common", "uuid"]
    gbin = vf.build_gotest(ctx, ".", hd)

    evaluations = 0
    inputs = set()
    samples = []
    mism = []
    gray = dict(accepted=0, rejected=0)

    def judge(key, r, why, exp=None):
        mism.append((key, _describe(r, why, exp), dict(record=_pretty(r), raw=r, required=exp)))

    # ---- 3. spec -> code
    rp = os.path.join(ctx.tmp, "res.ndjson")
    vp = os.path.join(ctx.tmp, "vec_cases.ndjson")
    rc, out = vf.run_gotest(ctx, gbin, "^TestVfC19Cases$", env={"VF_CASES": cpath, "VF_RESULTS": rp, "VF_VECTORS": vp})
    _summary(out, "uuid cases")
    res = vf.read_ndjson(rp)
    seen = set()
    for r in res:
        c = cases[r["i"]]
        seen.add(r["i"])
        evaluations += 1
        inputs.add(_input_id(r))
        k = r["k"]
        if r["panic"]:
            judge(k + "-panic", r, "panic")
            continue
        if k == "parse":
            pfx = _pfx(r)
            if c["cls"] == "reject":
                if r["ok"]:
                    judge(pfx + "-accepts-" + c["why"], r, "accepted a string that is not 32 hex digits plus hyphens (%s)" % c["why"])
            elif c["cls"] == "accept":
                if not r["ok"]:
                    judge(pfx + "-rejects-wellformed", r, "rejected a well-formed UUID string")
                elif r["u"] != c["val"]:
                    judge(pfx + "-value", r, "wrong value", _hex(c["val"]))
            else:
                if r["via"] == "parse":
                    gray["accepted" if r["ok"] else "rejected"] += 1
                if r["ok"] and r["u"] != c["val"]:
                    judge(pfx + "-value", r, "wrong value", _hex(c["val"]))
        elif k == "v1":
            # a node that is not 6 bytes long: octets 0-9 (timestamp, version, variant, clock sequence) are specified,
            # where the node's bytes land is not (Uuid.tla V1Fields)
            six = len(c["node"]) == 6
            checks = [("v1-layout", r["u"] == c["u"] if six else r["u"][:10] == c["u"][:10] and len(r["u"]) == 16), ("v1-version", r["ver"] == 1), ("v1-variant", r["varietf"]),
                      ("v1-timestamp", r["ts"] == c["t"]), ("v1-time", r["tsec"] == c["tsec"] and r["tns"] == c["tns"])]
            bad = [n for n, ok in checks if not ok]
            if bad:
                judge(bad[0], r, bad[0], _pretty(c))
            elif r["clk"] != c["clock"] % 16384 or (six and r["nd"] != c["node"]):
                ctx.add_drift("Clock()/Node() of %s return %s / %s, built with %s / %s" % (_hex(r["u"]), r["clk"], _hex(r["nd"]), c["clock"], _hex(c["node"])))
            elif six and r["str"] != c["str"]:
                ctx.add_drift("String() of %s is %r, canonical form %r" % (_hex(r["u"]), _s(r["str"]), _s(c["str"])))
        elif k == "fromtime":
            checks = [("fromtime-version", r["ver"] == 1), ("fromtime-variant", r["varietf"]),
                      ("fromtime-layout", r["u"][:8] == c["head"]), ("fromtime-timestamp", r["ts"] == c["ts"]),
                      ("fromtime-time", r["tsec"] == c["tsec"] and r["tns"] == c["tns"])]
            bad = [n for n, ok in checks if not ok]
            if bad:
                judge(bad[0], r, bad[0], _pretty(c))
        else:
            raise vf.Inconclusive("unexpected result kind %r" % k)
    if len(seen) != len(cases):
        raise vf.Inconclusive("case driver answered %d of %d cases" % (len(seen), len(cases)))
    ctx.log("cases executed: %d results; strings with misplaced hyphens (property silent): %s" % (len(res), gray))
    for kind, pred in (("parse", lambda c: c["cls"] == "reject" and c["why"] == "long"), ("parse", lambda c: c["cls"] == "either"),
                       ("v1", lambda c: c["clock"] == 8191 and c["t"][0] == 15), ("time", lambda c: c["ns"] == 684697599)):
        for c in cases:
            if c["k"] == kind and pred(c):
                samples.append(dict(direction="spec->code", case=_pretty(c)))
                break

    # ---- 4. code -> spec
    p = os.path.join(ctx.tmp, "vec_random.ndjson")
    rc, out = vf.run_gotest(ctx, gbin, "^TestVfC19Record$", env={"VF_VECTORS": p, "VF_N": nrec})
    _summary(out, "uuid record")
    pc = os.path.join(ctx.tmp, "vec_printconc.ndjson")
    npc = 40 if quick else 1000
    rc, out = vf.run_gotest(ctx, gbin, "^TestVfC19PrintConcurrent$", env={"VF_VECTORS": pc, "VF_G": 8, "VF_M": npc})
    _summary(out, "uuid concurrent print")
    pcrecs = vf.read_ndjson(pc)
    if len(pcrecs) != 2 * 8 * npc:
        raise vf.Inconclusive("concurrent print driver recorded %d of %d observations" % (len(pcrecs), 2 * 8 * npc))
    recs = vf.read_ndjson(vp) + vf.read_ndjson(p) + pcrecs
    if len(recs) < 100:
        raise vf.Inconclusive("only %d recorded vectors" % len(recs))
    for n, r in enumerate(recs):
        r["vfn"] = n
    bad, drift, nval = _validate_sharded(ctx, recs, "vec", nproc)
    if nval != len(recs):
        raise vf.Inconclusive("TLC judged %d of %d vectors" % (nval, len(recs)))
    evaluations += nval
    vk = {}
    for r in recs:
        inputs.add(_input_id(r))
        vk[r["k"]] = vk.get(r["k"], 0) + 1
    for r, why in bad:
        judge((_pfx(r) + "-" + why) if r["k"] == "parse" and not why.startswith("panic") else (r["k"] + "-panic" if why == "panic" else why), r, why)
    for r, what in drift[:5]:
        ctx.add_drift("%s (%s)" % (what, json.dumps(_pretty(r))[:200]))
    ctx.log("recorded vectors judged by TLC: %d %s, rejected %d, drift %d" % (nval, vk, len(bad), len(drift)))
    for kind in ("print", "fromtime", "minmax", "now"):
        for r in recs:
            if r["k"] == kind:
                samples.append(dict(direction="code->spec", record=_pretty(r)))
                break

    # ---- 5. concurrent generation
    cdir = os.path.join(ctx.tmp, "conc")
    os.makedirs(cdir, exist_ok=True)
    rc, out = vf.run_gotest(ctx, gbin, "^TestVfC19Concurrent$",
                            env={"VF_CONC_DIR": cdir, "VF_G": conc_g, "VF_M": conc_m, "VF_SHARDS": nproc if quick else nproc * 2}, timeout=900)
    summ = _summary(out, "concurrent TimeUUID")
    files = sorted(os.path.join(cdir, f) for f in os.listdir(cdir))
    tot, conc_ok = 0, True
    conc_viol = {}
    with cf.ThreadPoolExecutor(nproc) as ex:
        for path, res in ex.map(lambda f: _conc(ctx, f), files):
            tot += res["n"]
            if not res["count"]:
                raise vf.Inconclusive("shard %s: header count does not match the records" % path)
            if not res["wellformed"]:
                # which one: python only locates it for the message
                rr = vf.read_ndjson(path)
                hdr, us = rr[0], rr[1:]
                wrong = [u for u in us if u["u"][3] % hdr["nshard"] != hdr["shard"]]
                if wrong:
                    raise vf.Inconclusive("shard %s holds a UUID of another shard" % path)
                b = [u for u in us if u["u"][6] >> 4 != 1 or u["u"][8] >> 6 != 2][:1]
                conc_viol.setdefault("timeuuid-concurrent-not-v1", ("TimeUUID() under concurrency returned a UUID that is not version 1 / RFC variant: %s" % (
                    _hex(b[0]["u"]) if b else "?"), dict(shard=path)))
                conc_ok = False
            if not res["distinct"]:
                rr = vf.read_ndjson(path)[1:]
                first = {}
                dup = None
                for u in rr:
                    t = tuple(u["u"])
                    if t in first:
                        dup = (first[t], u)
                        break
                    first[t] = u
                # every call obtained its own counter value (TLC: clockSeq advanced by exactly the number of
                # calls) and still two UUIDs coincide: their counters differ by a multiple of 2^14 - the limit
                # UuidGen_wrap.cfg exhibits (a call delayed between reading the clock and incrementing the
                # counter while >= 2^14 other UUIDs were generated).  Otherwise increments were lost or missing.
                wrap = res["counter"] and conc_g * conc_m >= 16384
                conc_viol.setdefault("timeuuid-concurrent-duplicate" + ("-clockseq-wrap" if wrap else ""),
                              ("two TimeUUID() calls returned the same UUID %s (goroutines %s and %s; %d goroutines x %d calls)%s" % (
                                  _hex(dup[0]["u"]) if dup else "?", dup[0]["g"] if dup else "?", dup[1]["g"] if dup else "?",
                                  conc_g, conc_m, "; every call incremented clockSeq, so the 14-bit clock sequence wrapped "
                                  "between the two calls while both read the same 100 ns tick" if wrap else ""), dict(duplicate=dup)))
                conc_ok = False
            if not res["counter"] and conc_ok:
                ctx.add_drift("clockSeq did not advance by exactly one per TimeUUID() call (generator model UuidGen.tla): "
                              "no duplicate was produced, the property is not contradicted")
    for key, (what, detail) in sorted(conc_viol.items()):
        ctx.violation(key, what, detail)
    if tot != summ["total"]:
        raise vf.Inconclusive("TLC saw %d of %d concurrently generated UUIDs" % (tot, summ["total"]))
    evaluations += tot
    ctx.log("concurrent TimeUUID: %d goroutines x %d, %d UUIDs checked pairwise distinct by TLC in %d shards: %s" % (
        conc_g, conc_m, tot, len(files), "distinct" if conc_ok else "NOT distinct"))

    # ---- 5b. the mechanism behind the clock-sequence limit, shown on the real code (informational)
    rc, out = vf.run_gotest(ctx, gbin, "^TestVfC19WrapDemo$")
    m = re.search(r"^VFWRAP (.*)$", out, re.M)
    if m:
        ctx.notes.append("clock-sequence limit on the real code (UUIDFromTime with one fixed time, 2^14 calls apart): " + m.group(1))

    # ---- 6. verdict
    byk = {}
    for key, what, detail in mism:
        byk.setdefault(key, []).append((what, detail))
    for key, lst in sorted(byk.items()):
        ctx.violation(key, "%s [%d case(s) of this class]" % (lst[0][0], len(lst)), lst[0][1])

    ctx.cov = dict(
        evaluations=evaluations,
        distinct_nontrivial=len(inputs),
        rule="distinct (kind, input) tuples executed on the real API and compared with what Uuid.tla requires (the "
             "concurrently generated UUIDs, each checked by TLC to be a v1 UUID and all pairwise distinct, are counted in "
             "evaluations and under 'concurrent' only)",
        generated_cases=bykind, generator_states=gen_states, recorded_vectors=vk,
        misplaced_hyphen_strings=gray,
        concurrent=dict(goroutines=conc_g, calls_each=conc_m, uuids=tot, shards=len(files), distinct=conc_ok),
        generator_model=dict(ok=dict(distinct=m_ok.distinct, generated=m_ok.generated),
                             limit_wrap=m_wrap.violated, limit_nonatomic=m_na.violated),
        mismatching_classes=sorted(byk.keys()),
        samples=samples[:8],
    )
    ctx.assumptions += [
        "strings with exactly 32 hex digits and hyphens outside the canonical positions are not decided by the property "
        "(accepting or rejecting both pass; an accepted one must have the digits' value)",
        "times are restricted to the 60-bit range 1582-10-15 .. 5236-03-31T21:21:00.6846975Z",
        "concurrency: the harness's sharding of the generated UUIDs is glue (TLC re-checks shard membership, version, variant, "
        "counts and distinctness); the wall clock is assumed not to step backwards by more than the time 2^14 UUIDs take",
        "TimeUUIDWith with a node that is not 6 bytes long (0..20 bytes tried) is judged on version, variant, timestamp and "
        "clock sequence only (where the node's bytes land is not specified); clocks up to 2^31-1",
    ]
