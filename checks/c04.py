"""C04 - well-formed server responses are decoded to exactly what the server said.

spec/WireResp.tla      reference encoder (protocol v1..v5) + the view an application must get
spec/Gen_WireResp.tla  TLC generates the cases (BFS one state per case, -simulate for deep trees)
harness/c04            feeds the frame bytes to the real receive path, records the driver's view
spec/Trace_WireResp.tla  TLC compares every recorded view with the logical record (MONVIOL)
"""
import collections, concurrent.futures as cf, hashlib, json, os, random, re
import vf



def _printed(out, tag):
    """Values printed with PrintT("TAG " \\o ToJson(x)): a quoted TLA+ string on one line."""
    res = []
    pre = '"' + tag + " "
    for line in out.splitlines():
        if line.startswith(pre) and line.endswith('"'):
            s = line[len(pre):-1].replace('\\"', '"').replace("\\\\", "\\")
            res.append(json.loads(s))
    return res


def _s(b):
    """bytes-as-ints -> readable text for messages"""
    try:
        return bytes(b).decode("utf-8")
    except Exception:
        return repr(bytes(b))


SCANNERS = {"c_rawscanner", "c_ptrscanner"}
CONSUMERS = SCANNERS | {"c_rawscan", "c_ptrscan", "c_keepscan", "c_mapscan", "c_slicemap"}


def _known_class(c, mode, v, view):
    """Predicates over the case that identify a whole family of cases hitting one defect
    (DESIGN.md section 9); anything that does not satisfy a predicate exactly keeps its
    field-based key."""
    l = c["logical"]
    if l["kind"] != "RESULT_ROWS" or v["top"] or not isinstance(view.get("f"), dict):
        return None
    fields = set(v["inner"])
    cols = l["b"]["meta"]["cols"]
    f = view["f"]
    # iterScanner.Scan indexes the row's cells with the destination index: a tuple column with
    # >= 2 elements that is not the last column shifts it past the end
    tuple_not_last = any(col["type"]["id"] == 49 and len(col["type"]["args"]) >= 2 for col in cols[:-1])
    if fields and fields <= SCANNERS and tuple_not_last and all(
            str(f.get(k, {}).get("err", "")).startswith("panic: runtime error: index out of range") for k in fields):
        return "scanner-tuple-not-last-panic"
    # protocol v1: the PREPARED response has no result metadata, the driver still substitutes it
    if l["v"] == 1 and mode.startswith("sess-skip") and cols and "cols" in fields and f.get("cols") == [] and fields <= CONSUMERS | {"cols"}:
        return "v1-skipmeta-no-columns"
    return None


def _key(c, mode, v):
    """Violation key: <path>/<kind>[/<error code>]/v<version>/<first contradicted field>."""
    l = c["logical"]
    path = "framer" if mode in ("plain", "snappy") else "session"
    if mode.endswith("-z") or mode == "snappy":
        path += "-compressed"
    if mode.startswith("sess-skip"):
        path += "-skipmeta"
    if mode.startswith("sess-prep"):
        path += "-queryinfo"
    if mode.startswith("sess-iter"):
        path += "-iter"
    if mode.endswith("-t"):
        path += "-readtimeout"
    kind = l["kind"].lower()
    if l["kind"] == "ERROR":
        kind += "-0x%04x" % l["b"]["code"]
    if l["kind"] in ("RESULT_SCHEMA", "EVENT_SCHEMA"):
        kind += "-" + l["b"]["target"].lower()
    fields = sorted(v["top"]) + sorted(v["inner"])
    first = fields[0] if fields else "?"
    view = c["views"].get(mode, {})
    if view.get("panic"):
        first = "panic"
    elif view.get("perr"):
        first = "parse-error"
    cls = _known_class(c, mode, v, view)
    if cls:
        first = cls
    return "%s/%s/v%d/%s" % (path, kind, l["v"], first)


def _describe(c, mode, v):
    l = c["logical"]
    view = c["views"].get(mode, {})
    what = "%s v%d (case %d, family %s, mode %s): the driver's view contradicts the frame in %s" % (
        l["kind"], l["v"], c["id"], c["fam"], mode, ",".join(sorted(v["top"]) + sorted(v["inner"])))
    if view.get("panic"):
        what += "; panic: " + view["panic"]
    if view.get("perr"):
        what += "; error: " + view["perr"]
    return what


def _summary(c):
    """The few facts about a case the driver of the check needs (the full record stays a JSON string)."""
    l = c["logical"]
    rows = l["kind"] == "RESULT_ROWS"
    return dict(fam=c["fam"], kind=l["kind"], v=l["v"], rows=rows, nometa=bool(rows and l["b"]["meta"]["nometa"]),
                prep=bool(c["prep"]), typed=c["typed"], nbytes=len(c["bytes"]),
                code=l["b"]["code"] if l["kind"] == "ERROR" else None)


def _modes(s, cid, quick):
    """Which ways a case is pushed through the driver."""
    modes = ["plain", "snappy"]
    if s["rows"] and s["prep"]:
        z = (cid % 3 == 0) if quick else True
        if s["nometa"]:
            modes.append("sess-skip")
            if z:
                modes.append("sess-skip-z")
        else:
            modes.append("sess-full")
            if z:
                modes.append("sess-full-z")
            if s["v"] == 1:
                # v1 has no skip-metadata flag on the wire: the server always sends the
                # metadata, whatever the driver's (default) skip setting is
                modes.append("sess-skip")
    # the same responses delivered in two pieces with a temporary read timeout in between
    for m in list(modes):
        if m in ("sess-full", "sess-skip") and (cid % 4 == 1 or not quick):
            modes.append(m + "-t")
    z = (cid % 3 == 0) if quick else True
    if s["kind"] == "ERROR" and s["code"] != 0x2500:
        # as the application gets it: the error value returned by Iter.Close() for a plain QUERY
        # (UNPREPARED makes the driver re-prepare and re-execute: not a terminal answer)
        modes.append("sess-full")
        if z:
            modes.append("sess-full-z")
    if s["kind"] in ("RESULT_VOID", "RESULT_KEYSPACE", "RESULT_SCHEMA"):
        # as the application gets it: Query.Iter() of a statement that returns no rows - the
        # iterator still carries the frame's warnings / custom payload / trace id
        modes.append("sess-iter")
        if z:
            modes.append("sess-iter-z")
    if s["kind"] == "RESULT_PREPARED":
        # as the application gets it: the QueryInfo handed to a binding function
        modes.append("sess-prep")
        if z:
            modes.append("sess-prep-z")
    return modes


def _case_lines(out, tag="CASE"):
    pre = '"' + tag + " "
    for line in out.splitlines():
        if line.startswith(pre) and line.endswith('"'):
            yield line[len(pre):-1].replace('\\"', '"').replace("\\\\", "\\")


def run(ctx):
    quick = ctx.tier == "quick"
    ctx.level = "exploration"
    if getattr(ctx, "replay", None):
        return _run(ctx, quick, _replay_cases(ctx.replay))
    return _run(ctx, quick, None)


def _replay_cases(path):
    """Cases of a replay file written by an earlier run: each violation carries its case."""
    rp = json.load(open(path))
    res = []
    for v in rp.get("violations", []):
        d = v.get("detail") or {}
        if "case" in d:
            res.append((json.dumps(d["case"], separators=(",", ":")), [d["mode"]]))
    if not res:
        raise vf.Inconclusive("replay file %s holds no C04 case" % path)
    return res


def _run(ctx, quick, replay):
    if replay is not None:
        raw = [r[0] for r in replay]
        forced = [r[1] for r in replay]
        nbfs, ndeep_all, deep = len(raw), 0, []
        gdistinct = 0
        ctx.log("replaying %d case(s)" % len(raw))
        return _drive(ctx, quick, raw, forced, nbfs, deep, ndeep_all, gdistinct)
    # ---- 1. TLC generates the cases
    cfg = "Gen_WireResp_quick.cfg" if quick else "Gen_WireResp_thorough.cfg"
    g = vf.run_tlc(ctx, "Gen_WireResp", cfg, workers=4, heap="4g", timeout=600, deadlock=False, name="gen")
    if not g.ok:
        raise vf.Inconclusive("case generator failed: %s\n%s" % (g.error or g.violated, g.out[-2000:]))
    raw = list(_case_lines(g.out))          # one JSON string per case
    nbfs = len(raw)
    if nbfs != g.distinct:
        raise vf.Inconclusive("generator printed %d cases for %d states" % (nbfs, g.distinct))
    g.out = ""
    sim = vf.run_tlc(ctx, "Gen_WireResp", "Gen_WireResp_sim.cfg", workers=1, heap="2g", timeout=300,
                     simulate="num=%d" % (12 if quick else 150), depth=6 if quick else 9, deadlock=False, name="gensim",
                     extra=["-seed", str(ctx.seed)])
    if not sim.ok:
        raise vf.Inconclusive("simulation generator failed: %s\n%s" % (sim.error or sim.violated, sim.out[-2000:]))
    # TLC evaluates the printing invariant on every candidate successor of a walk, so a walk
    # yields far more trees than its length: keep a seeded sample of the distinct ones
    deep = sorted(set(_case_lines(sim.out)))
    sim.out = ""
    ndeep_all = len(deep)
    random.Random(ctx.seed).shuffle(deep)
    deep = deep[:300 if quick else 6000]
    raw += deep
    ctx.log("cases: %d systematic (BFS) + %d of %d distinct trees from random walks" % (nbfs, len(deep), ndeep_all))
    if not raw:
        raise vf.Inconclusive("no cases generated")
    return _drive(ctx, quick, raw, None, nbfs, deep, ndeep_all, g.distinct)


def _drive(ctx, quick, raw, forced, nbfs, deep, ndeep_all, gdistinct):
    # ---- 2. the real code decodes them
    cp = os.path.join(ctx.tmp, "c04_cases.ndjson")
    summ_of, logical_of, expected_views = [], [], 0
    with open(cp, "w") as f:
        for cid, line in enumerate(raw):
            c = json.loads(line)
            s = _summary(c)
            s["modes"] = forced[cid] if forced else _modes(s, cid, quick)
            expected_views += len(s["modes"])
            summ_of.append(s)
            logical_of.append(json.dumps(c["logical"], separators=(",", ":")))
            f.write(json.dumps(dict(id=cid, v=s["v"], bytes=c["bytes"], prep=c["prep"], typed=c["typed"], plan=c["plan"],
                                    cons=(s["rows"] and not s["nometa"]), modes=s["modes"]), separators=(",", ":")) + "\n")
    binary = vf.build_gotest(ctx, ".", ["c04"])
    vp = os.path.join(ctx.tmp, "c04_views.ndjson")
    rc, out = vf.run_gotest(ctx, binary, "^TestVfC04Run$", env={"VF_C04_CASES": cp, "VF_C04_VIEWS": vp},
                            timeout=1200, check=False)
    m = re.search(r"^VFC04SUMMARY (.*)$", out, re.M)
    if not m:
        if "VFC04ABORT" in out:
            raise vf.Inconclusive("harness aborted by its memory watchdog: " + re.search(r"VFC04ABORT[^\n]*", out).group(0))
        raise vf.Inconclusive("harness gave no summary (rc=%s):\n%s" % (rc, out[-3000:]))
    summ = json.loads(m.group(1))
    ctx.log("harness: %s" % summ)
    if summ["sess_errors"]:
        raise vf.Inconclusive("could not open a session to the scripted node: %s" % summ["sess_errors"])
    if any(m.endswith("-t") for s in summ_of for m in s["modes"]) and not summ.get("faults_fired"):
        raise vf.Inconclusive("the injected read timeouts never fired: the split-delivery modes were vacuous")
    if summ["views"] != expected_views:
        raise vf.Inconclusive("harness produced %d views, expected %d" % (summ["views"], expected_views))

    # ---- 3. TLC decides view = logical on every vector (the logical record is attached here,
    #         from TLC's own output, never by the harness)
    nshard = min(8, vf.NCPU, max(1, expected_views // 400))
    paths = [os.path.join(ctx.tmp, "c04_vec_%d.ndjson" % i) for i in range(nshard)]
    files = [open(p, "w") for p in paths]
    counts = [0] * nshard
    head = re.compile(r'"id":(\d+)')
    modes_seen = collections.Counter()
    distinct = set()
    with open(vp) as f:
        for n, line in enumerate(f):
            line = line.strip()
            if not line:
                continue
            view = json.loads(line)
            cid, mode = view["id"], view["mode"]
            if view.get("transient"):
                raise vf.Inconclusive("case %d mode %s kept running into the client timeout (machine load)" % (cid, mode))
            modes_seen[mode] += 1
            if summ_of[cid]["nbytes"] > 9:
                distinct.add((mode, hashlib.md5(raw[cid][raw[cid].index('"bytes"'):].encode()).digest()))
            i = n % nshard
            files[i].write('{"id":%d,"mode":"%s","typed":%s,"logical":%s,"view":%s}\n' % (
                cid, mode, "true" if summ_of[cid]["typed"] else "false", logical_of[cid], line))
            counts[i] += 1
    for fo in files:
        fo.close()

    def validate(i):
        return vf.run_tlc(ctx, "Trace_WireResp", "Trace_WireResp.cfg", workers=1, heap="3g", timeout=1500,
                          env={"VF_TRACE": paths[i]}, deadlock=False, name="val_%d" % i, quiet=True)

    monviol, checked = [], 0
    with cf.ThreadPoolExecutor(nshard) as ex:
        for i, r in enumerate(ex.map(validate, range(nshard))):
            done = re.search(r'^"MONDONE (\d+)"$', r.out, re.M)
            if not r.ok or not done or int(done.group(1)) != counts[i]:
                raise vf.Inconclusive("vector validation failed on shard %d: %s\n%s" % (i, r.error or r.violated, r.out[-2500:]))
            checked += int(done.group(1))
            for v in _printed(r.out, "MONVIOL"):
                v["shard"] = i
                monviol.append(v)
    ctx.log("TLC compared %d views with their logical records: %d mismatches" % (checked, len(monviol)))

    # the offending vectors are read back from the shard files (line numbers from TLC)
    want = collections.defaultdict(dict)
    for v in monviol:
        want[v["shard"]][v["line"]] = v
    for i, lines in want.items():
        with open(paths[i]) as f:
            for n, line in enumerate(f, 1):
                if n in lines:
                    lines[n]["vector"] = json.loads(line)
    bykey = collections.OrderedDict()
    for v in monviol:
        vec = v["vector"]
        c = dict(json.loads(raw[v["id"]]), id=v["id"], views={v["mode"]: vec["view"]})
        bykey.setdefault(_key(c, v["mode"], v), []).append((c, v))
    for key, lst in bykey.items():
        c, v = lst[0]
        ctx.violation(key, _describe(c, v["mode"], v) + " [%d case(s) with this key]" % len(lst),
                      dict(case=dict(fam=c["fam"], logical=c["logical"], bytes=c["bytes"], prep=c["prep"], typed=c["typed"],
                                     plan=c["plan"]),
                           mode=v["mode"], view=c["views"][v["mode"]],
                           contradicted=dict(top=v["top"], inner=v["inner"]), other_cases=[x[0]["id"] for x in lst[1:20]]))

    # ---- evidence
    fam = collections.Counter(s["fam"] for s in summ_of)
    sid = next((i for i, s in enumerate(summ_of) if s["fam"] == "ROWS" and s["v"] >= 4 and "sess-skip" in s["modes"]
                and s["typed"] and s["nbytes"] > 80), 0)
    if forced:
        ctx.notes.append("replay of %d recorded case(s)" % len(raw))
    sample = json.loads(raw[sid])
    sview = None
    with open(vp) as f:
        for line in f:
            if '"id":%d,' % sid in line and '"mode":"%s"' % summ_of[sid]["modes"][-1] in line:
                sview = json.loads(line)
                break
    ctx.cov = dict(
        evaluations=checked,
        distinct_nontrivial=len(distinct),
        rule="distinct (frame bytes, path) pairs with a non-empty body whose decoded view TLC compared with the logical record",
        cases=len(raw), cases_bfs=nbfs, cases_simulation=len(deep), simulation_trees_seen=ndeep_all,
        generator_states=gdistinct, families=dict(fam), views_by_mode=dict(modes_seen),
        versions=sorted(set(s["v"] for s in summ_of)),
        kinds=sorted(set(s["kind"] for s in summ_of)),
        error_codes=sorted(set("0x%04x" % s["code"] for s in summ_of if s["code"] is not None)),
        mismatches=len(monviol),
        samples=[dict(case=sid, fam=sample["fam"], modes=summ_of[sid]["modes"], logical=sample["logical"], bytes=sample["bytes"],
                      prepared_frame=sample["prep"], driver_view=sview)],
    )
    ctx.assumptions += [
        "reference encoder written from the native protocol specifications v1-v5; v5 'as implemented' by the driver: legacy "
        "framing, PREPARED without result_metadata_id, no Metadata_changed flag, WRITE_TIMEOUT without contentions",
        "compressed variants: the body is compressed in Go with the driver's own SnappyCompressor (codec correctness is C18)",
        "cell values: opaque bytes plus int/text/boolean/list<int>/set<int>/tuple<int,text> with a local encoder (value encodings are C12)",
        "bounded: type trees to depth 2 systematically (deeper by random walks), <= 3 columns, <= 2 rows",
    ]
