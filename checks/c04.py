"""C04 - well-formed server responses are decoded to exactly what the server said.

spec/WireResp.tla      reference encoder (protocol v1..v5) + the view an application must get
spec/Gen_WireResp.tla  TLC generates the cases (BFS one state per case, -simulate for deep trees)
harness/c04            feeds the frame bytes to the real receive path, records the driver's view
spec/Trace_WireResp.tla  TLC compares every recorded view with the logical record (MONVIOL)
"""
import collections, concurrent.futures as cf, json, os, random, re
import vf

SESS = ("sess-full", "sess-skip", "sess-full-z", "sess-skip-z")


def _printed(out, tag):
    """Values printed with PrintT("TAG " \\o ToJson(x)): a quoted TLA+ string on one line."""
    res = []
    pre = '"' + tag + " "
    for line in out.splitlines():
        if line.startswith(pre) and line.endswith('"'):
            s = line[len(pre):-1].replace('\\"', '"').replace("\\\\", "\\")
            res.append(json.loads(s))
    return res


def _s(b):
    """bytes-as-ints -> readable text for messages"""
    try:
        return bytes(b).decode("utf-8")
    except Exception:
        return repr(bytes(b))


def _modes(c, quick):
    """Which ways a case is pushed through the driver."""
    l = c["logical"]
    modes = ["plain", "snappy"]
    if l["kind"] == "RESULT_ROWS" and c["prep"]:
        nometa = l["b"]["meta"]["nometa"]
        z = (c["id"] % 3 == 0) if quick else True
        if nometa:
            modes.append("sess-skip")
            if z:
                modes.append("sess-skip-z")
        else:
            modes.append("sess-full")
            if z:
                modes.append("sess-full-z")
            if l["v"] == 1:
                # v1 has no skip-metadata flag on the wire: the server always sends the
                # metadata, whatever the driver's (default) skip setting is
                modes.append("sess-skip")
    return modes


SCANNERS = {"c_rawscanner", "c_ptrscanner"}
CONSUMERS = SCANNERS | {"c_rawscan", "c_ptrscan", "c_mapscan", "c_slicemap"}


def _known_class(c, mode, v, view):
    """Predicates over the case that identify a whole family of cases hitting one defect
    (DESIGN.md section 9); anything that does not satisfy a predicate exactly keeps its
    field-based key."""
    l = c["logical"]
    if l["kind"] != "RESULT_ROWS" or v["top"] or not isinstance(view.get("f"), dict):
        return None
    fields = set(v["inner"])
    cols = l["b"]["meta"]["cols"]
    f = view["f"]
    # iterScanner.Scan indexes the row's cells with the destination index: a tuple column with
    # >= 2 elements that is not the last column shifts it past the end
    tuple_not_last = any(col["type"]["id"] == 49 and len(col["type"]["args"]) >= 2 for col in cols[:-1])
    if fields and fields <= SCANNERS and tuple_not_last and all(
            str(f.get(k, {}).get("err", "")).startswith("panic: runtime error: index out of range") for k in fields):
        return "scanner-tuple-not-last-panic"
    # protocol v1: the PREPARED response has no result metadata, the driver still substitutes it
    if l["v"] == 1 and mode.startswith("sess-skip") and cols and "cols" in fields and f.get("cols") == [] and fields <= CONSUMERS | {"cols"}:
        return "v1-skipmeta-no-columns"
    return None


def _key(c, mode, v):
    """Violation key: <path>/<kind>[/<error code>]/v<version>/<first contradicted field>."""
    l = c["logical"]
    path = "framer" if mode in ("plain", "snappy") else "session"
    if mode in ("snappy", "sess-full-z", "sess-skip-z"):
        path += "-compressed"
    if mode.startswith("sess-skip"):
        path += "-skipmeta"
    kind = l["kind"].lower()
    if l["kind"] == "ERROR":
        kind += "-0x%04x" % l["b"]["code"]
    if l["kind"] in ("RESULT_SCHEMA", "EVENT_SCHEMA"):
        kind += "-" + l["b"]["target"].lower()
    fields = sorted(v["top"]) + sorted(v["inner"])
    first = fields[0] if fields else "?"
    view = c["views"].get(mode, {})
    if view.get("panic"):
        first = "panic"
    elif view.get("perr"):
        first = "parse-error"
    cls = _known_class(c, mode, v, view)
    if cls:
        first = cls
    return "%s/%s/v%d/%s" % (path, kind, l["v"], first)


def _describe(c, mode, v):
    l = c["logical"]
    view = c["views"].get(mode, {})
    what = "%s v%d (case %d, family %s, mode %s): the driver's view contradicts the frame in %s" % (
        l["kind"], l["v"], c["id"], c["fam"], mode, ",".join(sorted(v["top"]) + sorted(v["inner"])))
    if view.get("panic"):
        what += "; panic: " + view["panic"]
    if view.get("perr"):
        what += "; error: " + view["perr"]
    return what


def run(ctx):
    quick = ctx.tier == "quick"
    ctx.level = "exploration"
    # ---- 1. TLC generates the cases
    cfg = "Gen_WireResp_quick.cfg" if quick else "Gen_WireResp_thorough.cfg"
    g = vf.run_tlc(ctx, "Gen_WireResp", cfg, workers=4, heap="4g", timeout=600, deadlock=False, name="gen")
    if not g.ok:
        raise vf.Inconclusive("case generator failed: %s\n%s" % (g.error or g.violated, g.out[-2000:]))
    cases = _printed(g.out, "CASE")
    nbfs = len(cases)
    if nbfs != g.distinct:
        raise vf.Inconclusive("generator printed %d cases for %d states" % (nbfs, g.distinct))
    sim = vf.run_tlc(ctx, "Gen_WireResp", "Gen_WireResp_sim.cfg", workers=1, heap="2g", timeout=300,
                     simulate="num=%d" % (12 if quick else 150), depth=6 if quick else 9, deadlock=False, name="gensim",
                     extra=["-seed", str(ctx.seed)])
    if not sim.ok:
        raise vf.Inconclusive("simulation generator failed: %s\n%s" % (sim.error or sim.violated, sim.out[-2000:]))
    deep, seen = [], set()
    for c in _printed(sim.out, "CASE"):
        k = json.dumps(c["bytes"])
        if k not in seen:
            seen.add(k)
            deep.append(c)
    # TLC evaluates the printing invariant on every candidate successor of a walk, so a walk
    # yields far more trees than its length: keep a seeded sample
    ndeep_all = len(deep)
    random.Random(ctx.seed).shuffle(deep)
    deep = deep[:300 if quick else 6000]
    cases += deep
    ctx.log("cases: %d systematic (BFS) + %d from random walks" % (nbfs, len(deep)))
    if not cases:
        raise vf.Inconclusive("no cases generated")
    for i, c in enumerate(cases):
        c["id"] = i
        c["views"] = {}
        c["modes"] = _modes(c, quick)

    # ---- 2. the real code decodes them
    cp = os.path.join(ctx.tmp, "c04_cases.ndjson")
    with open(cp, "w") as f:
        for c in cases:
            l = c["logical"]
            f.write(json.dumps(dict(id=c["id"], v=l["v"], bytes=c["bytes"], prep=c["prep"], typed=c["typed"], plan=c["plan"],
                                    cons=(l["kind"] == "RESULT_ROWS" and not l["b"]["meta"]["nometa"]),
                                    modes=c["modes"]), separators=(",", ":")) + "\n")
    binary = vf.build_gotest(ctx, ".", ["c04"])
    vp = os.path.join(ctx.tmp, "c04_views.ndjson")
    rc, out = vf.run_gotest(ctx, binary, "^TestVfC04Run$", env={"VF_C04_CASES": cp, "VF_C04_VIEWS": vp},
                            timeout=240 if quick else 900, check=False)
    m = re.search(r"^VFC04SUMMARY (.*)$", out, re.M)
    if not m:
        if "VFC04ABORT" in out:
            raise vf.Inconclusive("harness aborted by its memory watchdog: " + re.search(r"VFC04ABORT[^\n]*", out).group(0))
        raise vf.Inconclusive("harness gave no summary (rc=%s):\n%s" % (rc, out[-3000:]))
    summ = json.loads(m.group(1))
    ctx.log("harness: %s" % summ)
    if summ["sess_errors"]:
        raise vf.Inconclusive("could not open a session to the scripted node: %s" % summ["sess_errors"])
    views = vf.read_ndjson(vp)
    expected_views = sum(len(c["modes"]) for c in cases)
    if len(views) != expected_views:
        raise vf.Inconclusive("harness produced %d views, expected %d" % (len(views), expected_views))

    # ---- 3. TLC decides view = logical on every vector
    vectors = []
    for v in views:
        c = cases[v["id"]]
        c["views"][v["mode"]] = v
        vectors.append(dict(id=v["id"], mode=v["mode"], typed=c["typed"], logical=c["logical"], view=v))
    nshard = min(8, vf.NCPU, max(1, len(vectors) // 400))
    shards = [vectors[i::nshard] for i in range(nshard)]

    def validate(i):
        p = os.path.join(ctx.tmp, "c04_vec_%d.ndjson" % i)
        vf.write_ndjson(p, shards[i])
        return vf.run_tlc(ctx, "Trace_WireResp", "Trace_WireResp.cfg", workers=1, heap="3g", timeout=1500,
                          env={"VF_TRACE": p}, deadlock=False, name="val_%d" % i, quiet=True)

    monviol, checked = [], 0
    with cf.ThreadPoolExecutor(nshard) as ex:
        for i, r in enumerate(ex.map(validate, range(nshard))):
            done = re.search(r'^"MONDONE (\d+)"$', r.out, re.M)
            if not r.ok or not done or int(done.group(1)) != len(shards[i]):
                raise vf.Inconclusive("vector validation failed on shard %d: %s\n%s" % (i, r.error or r.violated, r.out[-2500:]))
            checked += int(done.group(1))
            monviol += _printed(r.out, "MONVIOL")
    ctx.log("TLC compared %d views with their logical records: %d mismatches" % (checked, len(monviol)))

    bykey = collections.OrderedDict()
    for v in monviol:
        c = cases[v["id"]]
        bykey.setdefault(_key(c, v["mode"], v), []).append((c, v))
    for key, lst in bykey.items():
        c, v = lst[0]
        ctx.violation(key, _describe(c, v["mode"], v) + " [%d case(s) with this key]" % len(lst),
                      dict(logical=c["logical"], bytes=c["bytes"], prep=c["prep"], mode=v["mode"], view=c["views"].get(v["mode"]),
                           contradicted=dict(top=v["top"], inner=v["inner"]), other_cases=[x[0]["id"] for x in lst[1:20]]))

    # ---- evidence
    distinct = set()
    for v in vectors:
        c = cases[v["id"]]
        if len(c["bytes"]) > 9:
            distinct.add((v["mode"], json.dumps(c["bytes"])))
    fam = collections.Counter(c["fam"] for c in cases)
    modes = collections.Counter(v["mode"] for v in vectors)
    sample = next(c for c in cases if c["fam"] == "ROWS" and c["logical"]["v"] >= 4 and c["logical"]["b"]["rows"] and "sess-skip" in c["modes"])
    ctx.cov = dict(
        evaluations=checked,
        distinct_nontrivial=len(distinct),
        rule="distinct (frame bytes, path) pairs with a non-empty body whose decoded view TLC compared with the logical record",
        cases=len(cases), cases_bfs=nbfs, cases_simulation=len(deep), simulation_trees_seen=ndeep_all, families=dict(fam), views_by_mode=dict(modes),
        versions=sorted(set(c["logical"]["v"] for c in cases)),
        kinds=sorted(set(c["logical"]["kind"] for c in cases)),
        error_codes=sorted(set("0x%04x" % c["logical"]["b"]["code"] for c in cases if c["logical"]["kind"] == "ERROR")),
        mismatches=len(monviol),
        samples=[dict(case=sample["id"], fam=sample["fam"], modes=sample["modes"], logical=sample["logical"], bytes=sample["bytes"],
                      view_sess_skip=sample["views"].get("sess-skip"))],
    )
    ctx.assumptions += [
        "reference encoder written from the native protocol specifications v1-v5; v5 'as implemented' by the driver: legacy "
        "framing, PREPARED without result_metadata_id, no Metadata_changed flag, WRITE_TIMEOUT without contentions",
        "compressed variants: the body is compressed in Go with the driver's own SnappyCompressor (codec correctness is C18)",
        "cell values: opaque bytes plus int/text/boolean/list<int>/set<int>/tuple<int,text> with a local encoder (value encodings are C12)",
        "bounded: type trees to depth 2 systematically (deeper by random walks), <= 3 columns, <= 2 rows",
    ]
