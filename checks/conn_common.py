"""Shared driver for C01 / C06 (and the Conn-level part of C07): Conn.tla model pass, free-running
executions of a real connection, TLC evaluation of the property invariants on the real traces."""
import shutil, json, os, re, glob, concurrent.futures as cf
import vf

KINDS = {
    "C01": {"NoMisroute", "NoReuseWhileOutstanding", "ResponseReaches", "TimeoutHonoured", "UniqueHold"},
    "C06": {"OutcomeOnce", "OutcomeAllowed", "ReleaseOnce", "ObserverOnce", "NoLeak", "Conservation",
            "CloseReturns", "RequestEnds", "TimeoutHonoured", "ObserverEnds"},
}
MON_FIELDS = dict(ev="", seq=0, req=0, stream=0, tok="", echo="", outcome="", avail=0, closed=0, cap=0, what="")
MON_EVENTS = {"call", "ret", "n_recv", "n_send", "x_release", "obs_finished", "obs_abandoned", "avail", "env_stuck", "env_expect_resp", "r_lookup", "r_discard", "env_early_timeout", "obs_started", "c_begin", "x_del"}


def project_for_monitor(events, conn_id):
    out = []
    for e in events:
        if e["ev"] not in MON_EVENTS:
            continue
        if e["ev"] in ("x_release", "r_lookup", "r_discard", "c_begin", "x_del") and e.get("conn") != conn_id:
            continue
        r = dict(MON_FIELDS)
        for k in r:
            if k in e:
                r[k] = e[k]
        if e["ev"] in ("r_lookup", "r_discard"):
            r["stream"] = e.get("a", 0)      # (the hook reports the frame's stream id in field a)
        if e["ev"] == "c_begin":
            r["what"] = e.get("err", "none")
        out.append(r)
    out.append(dict(MON_FIELDS, ev="end", seq=(events[-1]["seq"] + 1) if events else 1))
    return out


def model_pass(ctx, prop):
    quick = ctx.tier == "quick"
    res = []
    r = vf.tlc_must_pass(ctx, "MC_Conn", "MC_Conn_safety2.cfg", timeout=900, heap="6g")
    res.append(("MC_Conn_safety2", r))
    if prop == "C06" or not quick:
        r2 = vf.tlc_must_pass(ctx, "MC_Conn", "MC_Conn_live2q.cfg" if quick else "MC_Conn_live2.cfg", timeout=1200, heap="8g")
        res.append(("MC_Conn_live2", r2))
    if not quick:
        r3 = vf.tlc_must_pass(ctx, "MC_Conn", "MC_Conn_safety3.cfg", timeout=2400, heap="14g")
        res.append(("MC_Conn_safety3", r3))
    if prop == "C06":
        # the heartbeat as one more requester / closer, and TimeoutLimit (a caller that times out past the
        # limit closes the connection itself)
        for cfg in (("MC_Conn_hbq.cfg", "MC_Conn_tlimitq.cfg") if quick else ("MC_Conn_hbq.cfg", "MC_Conn_tlimit.cfg", "MC_Conn_hb3.cfg")):
            r4 = vf.tlc_must_pass(ctx, "MC_Conn", cfg, timeout=2400, heap="10g")
            res.append((cfg[:-4], r4))
    return res


def selfcheck_model_mutants(ctx):
    """The properties are not vacuous: each deliberately wrong variant of the model is rejected."""
    expect = {"release_on_giveup": "MC_Conn_live2.cfg", "giveup_keeps_timeout_open": "MC_Conn_live2.cfg",
              "closer_never_skips": "MC_Conn_live2.cfg", "timeout_limit_ignored": "MC_Conn_tlimitq.cfg",
              "hb_ignores_close": "MC_Conn_hbq.cfg"}
    d = os.path.join(vf.SPEC)
    out = {}
    for m in expect:
        base = open(os.path.join(d, expect[m])).read()
        cfgname = "MC_Conn_mut_%s.cfg" % m
        # written into the scratch copy only
        sd = vf._scratch_spec_dir(ctx, "w")
        open(os.path.join(sd, cfgname), "w").write(base.replace('Mut = "none"', 'Mut = "%s"' % m))
        r = vf.run_tlc(ctx, "MC_Conn", cfgname, timeout=600, heap="6g", workers=8, quiet=True)
        out[m] = r.violated
        if r.ok or not r.violated:
            raise vf.Inconclusive("model mutant %s was not rejected by TLC (vacuous properties?)" % m)
    return out


def drive(ctx, nscen, callers, percall, race=False, gates=True):
    binary = vf.build_gotest(ctx, ".", ["common", "conn"], race=race)
    rc, out = vf.run_gotest(ctx, binary, "^TestVfConn(Stress|Gates)$" if gates else "^TestVfConnStress$",
                            env={"VF_NSCEN": nscen, "VF_CALLERS": callers, "VF_PERCALL": percall}, timeout=900)
    crashed = None
    if "panic:" in out and "--- PASS" not in out:
        m = re.search(r"panic: ([^\n]*)", out)
        crashed = m.group(1) if m else "panic"
    if "VFHARNESS" in out:
        raise vf.Inconclusive("scenario setup failed:\n" + out[-2000:])
    m = re.search(r"VFGATES written=(\d+) inconclusive=(.*)", out)
    if gates and m and m.group(2).strip() not in ("[]", ""):
        ctx.notes.append("gate scenarios inconclusive (not counted): " + m.group(2))
    files = sorted(f for f in glob.glob(os.path.join(ctx.tmp, "conn_*.ndjson")) if re.search(r"conn_g?\d+\.ndjson$", f))
    if not files and not crashed:
        raise vf.Inconclusive("driver produced no traces:\n" + out[-2000:])
    return files, crashed, out


def monitor(ctx, files):
    """Returns list of (file, kind, line-event) for every invariant violation TLC reports."""
    viol = []
    stats = dict(traces=0, events=0, calls=0)

    def one(path):
        evs = vf.read_ndjson(path)
        conn = [e for e in evs if e["ev"] == "env_conn"]
        if not conn:
            return path, None, evs, None
        proj = project_for_monitor(evs, conn[0]["conn"])
        mp = path.replace(".ndjson", ".mon.ndjson")
        vf.write_ndjson(mp, proj)
        r = vf.run_tlc(ctx, "Trace_ConnMon", "Trace_ConnMon.cfg", workers=1, heap="2g", timeout=600,
                       env={"VF_TRACE": mp}, deadlock=False, name="mon_" + os.path.basename(path), quiet=True)
        return path, r, evs, proj

    with cf.ThreadPoolExecutor(vf.NCPU) as ex:
        for path, r, evs, proj in ex.map(one, files):
            if r is None:
                raise vf.Inconclusive("trace without env_conn: " + path)
            if not r.ok:
                raise vf.Inconclusive("Trace_ConnMon failed on %s: %s\n%s" % (path, r.error, r.out[-1500:]))
            if r.distinct < len(proj):
                raise vf.Inconclusive("Trace_ConnMon consumed %d of %d lines of %s" % (r.distinct, len(proj), path))
            stats["traces"] += 1
            stats["events"] += len(evs)
            stats["calls"] += sum(1 for e in evs if e["ev"] == "call")
            for v in vf.tlc_printed(r.out, "MONVIOL"):
                ev = proj[v["line"] - 1] if 0 < v["line"] <= len(proj) else None
                viol.append((path, v["kind"], ev, evs))
    return viol, stats


def run_conn(ctx, prop):
    quick = ctx.tier == "quick"
    ctx.level = "model_checking"
    mres = model_pass(ctx, prop)
    muts = selfcheck_model_mutants(ctx) if not quick else {}
    files, crashed, out = drive(ctx, nscen=24 if quick else 160, callers=8 if quick else 16, percall=10 if quick else 25)
    if crashed:
        key = "count-negative" if "negative streams" in crashed else "driver-panic"
        if prop == "C06" or key == "driver-panic":
            ctx.violation(key, "the driver panicked during the free-running connection scenarios: " + crashed, out[-3000:])
    viol, stats = monitor(ctx, files)
    mine = [v for v in viol if v[1] in KINDS[prop]]
    other = [v for v in viol if v[1] not in KINDS[prop]]
    for path, kind, ev, evs in mine[:30]:
        kindconn = [e for e in evs if e["ev"] == "env_conn"][0]
        ctx.violation("trace-" + kind, "%s violated on a recorded execution of a real connection (scenario kind %s, protocol %s) at %s" % (
            kind, kindconn.get("kind"), kindconn.get("proto"), json.dumps(ev)),
            dict(trace=[{k: x for k, x in e.items() if k not in ("dump", "bytes")} for e in evs], event=ev))
    if other:
        ctx.notes.append("violations of invariants owned by the sibling property were seen: %s" % sorted({v[1] for v in other}))
    ctx.log("monitor: %s; violations mine=%d other=%d" % (stats, len(mine), len(other)))
    # ---- strict conformance of small scenarios to Conn.tla's actions (binds the model to the code)
    for f in files:
        os.rename(f, f + ".big")
    cfiles, ccrashed, _ = drive(ctx, nscen=16 if quick else 64, callers=3, percall=5, gates=False)
    cfiles += sorted(f[:-4] for f in glob.glob(os.path.join(ctx.tmp, "conn_g*.ndjson.big")))
    for f in glob.glob(os.path.join(ctx.tmp, "conn_g*.ndjson.big")):
        os.rename(f, f[:-4])
    acc, drifted, skipped, rejected, propviol = conformance(ctx, cfiles)
    ctx.log("conformance to Conn.tla: accepted=%d (with discipline drift %d) skipped=%d rejected=%d invariant violations=%d" % (
        acc, drifted, skipped, len(rejected), len(propviol)))
    # NoLeak / Conservation of the reconstructed behaviour depend on the x_release hook lines being
    # present (a lost line looks like a leak); the black-box allocator sample of the monitor decides
    # leaks, so these two are reported as drift here, never as violations.
    hookdep = [v for v in propviol if v[1] in ("NoLeak", "Conservation")]
    if hookdep:
        ctx.add_drift("%d reconstructed behaviours violate %s of Conn.tla (depends on the release hook lines; the allocator "
                      "sample at quiescence is the deciding observation)" % (len(hookdep), sorted({v[1] for v in hookdep})))
    for path, inv, at, evs in [v for v in propviol if v[1] not in ("NoLeak", "Conservation")][:10]:
        if inv in KINDS[prop]:
            kindconn = [e for e in evs if e["ev"] == "env_conn"][0]
            ctx.violation("conf-" + inv, "%s of Conn.tla is violated in the behaviour reconstructed from a recorded execution "
                          "(scenario kind %s, protocol %s), near %s" % (inv, kindconn.get("kind"), kindconn.get("proto"), json.dumps(at)),
                          dict(trace=[{k: x for k, x in e.items() if k not in ("dump", "bytes")} for e in evs]))
    if rejected:
        # keep the first rejected execution for analysis (replays/ is scratch, not evidence)
        try:
            dd = os.path.join(vf.VERIF, "replays", "drift")
            os.makedirs(dd, exist_ok=True)
            keep = os.path.join(dd, "%s_seed%s_%s" % (prop, ctx.seed, os.path.basename(rejected[0][0])))
            shutil.copy(rejected[0][0], keep)
            shutil.copy(rejected[0][0].replace(".ndjson", ".conf.ndjson"), keep.replace(".ndjson", ".conf.ndjson"))
        except OSError:
            pass
        ctx.add_drift("%d of %d recorded executions are not behaviours of Conn.tla (first: %s line %d: %s); the property "
                      "invariants were still evaluated on them by the monitor" % (
                          len(rejected), len(rejected) + acc, os.path.basename(rejected[0][0]), rejected[0][1], json.dumps(rejected[0][2])))
    if drifted:
        ctx.add_drift("%d recorded executions follow Conn.tla except for the release-after-error decision" % drifted)
    sample = vf.read_ndjson(files[0])[:60] if files else []
    ctx.cov = dict(
        states=sum(r.distinct for _, r in mres), transitions=sum(r.generated for _, r in mres),
        traces_validated_against_impl=stats["traces"] + acc, traces_conforming_to_model=acc, traces_rejected_by_model=len(rejected),
        requests_executed=stats["calls"], events_validated=stats["events"],
        model_configs=[dict(cfg=n, distinct=r.distinct, generated=r.generated, depth=r.depth) for n, r in mres],
        model_mutants_rejected=muts,
        samples=[dict(kind="recorded execution (first 60 events)", events=[
            {k: v for k, v in e.items() if k != "dump"} for e in sample])],
    )
    ctx.assumptions += [
        "the in-memory FIFO pipe stands for TCP; the token echoed by the scripted node identifies the origin of a response",
        "bounded model: 2 requests x 2 stream ids with every fault kind (3 requests in the thorough tier)",
        "timing: late answers arrive within 70 ms after the 40 ms driver timeout; watchdogs at 8 s",
    ]


# ---------------------------------------------------------------- strict conformance to Conn.tla

CONF_DROP = {"obs_started", "obs_finished", "obs_abandoned", "avail", "wire", "frame_exp", "env_cancel", "env_failwrite",
             "written", "closed_ret", "env_held", "env_unhold", "env_expect_resp", "env_early_timeout", "env_extclose_ret", "env_conn", "n_readerr", "env_unsettled", "env_stuck",
             "w_sem", "w_release", "q_enq", "f_flush", "f_ret"}
CONF_FIELDS = dict(ev="", seq=0, req="", stream=0, a=0, err="none", wn=0, werr="none", tl=0)


def project_for_conformance(events):
    """Projection of one scenario's log for Trace_Conn.tla (no state is guessed: fields are copied,
    x_wbegin is annotated with the result its own x_wend line reports later)."""
    conn = [e for e in events if e["ev"] == "env_conn"]
    if not conn:
        return None, "no env_conn"
    if str(conn[0].get("kind", "")).startswith("gate:handshake"):
        return None, "handshake scenario (several connections; judged by the monitor only)"
    if sum(1 for e in events if e["ev"] == "call") > 60:
        return None, "too many requests for the conformance pass (stream exhaustion scenario)"
    cid, start = conn[0]["conn"], conn[0]["seq"]
    tl = int(conn[0].get("tl", 0) or 0)
    out = []
    evs = [e for e in events if e["seq"] > start]
    # the heartbeat's requests: the k-th tick runs request "h<k>"; exec's own lines carry the (negative)
    # identity of the call object, the harness' call/ret lines the number 100000+k, the node's lines
    # the stream id the request was written with
    hbk, hbcur, hbcall, hbstream, hbtok = 0, "", {}, {}, {}
    for i, e in enumerate(evs):
        ev = e["ev"]
        if ev == "avail":
            break
        if ev in CONF_DROP:
            continue
        if "conn" in e and e["conn"] != cid and not ev.startswith("n_"):
            continue
        r = dict(CONF_FIELDS, ev=ev, seq=e["seq"], tl=tl)
        if ev.startswith("n_"):
            if ev in ("n_recv", "n_send"):
                r["stream"] = e["stream"]
                parts = e["tok"].split("_")
                if parts[0] == "hb":
                    if ev == "n_recv":
                        if e["stream"] not in hbstream:
                            return None, "heartbeat frame at the node on a stream no heartbeat request holds"
                        hbtok[parts[1]] = hbstream[e["stream"]]
                    if parts[1] not in hbtok:
                        return None, "heartbeat answer without request"
                    r["req"] = hbtok[parts[1]]
                else:
                    r["req"] = "q" + parts[1]
            elif ev == "n_unsol":
                r["stream"] = e["stream"]
        else:
            rq = e.get("req", 0)
            if ev == "hb_tick":
                hbk += 1
                hbcur = "h%d" % hbk
            if rq < 0:
                if rq not in hbcall:
                    if not hbcur or hbcur in hbcall.values():
                        return None, "internal request that is not the heartbeat's"
                    hbcall[rq] = hbcur
                r["req"] = hbcall[rq]
                if ev == "x_stream":
                    hbstream[e.get("stream", 0)] = r["req"]
            elif rq >= 100000:
                r["req"] = "h%d" % (rq - 100000)
            elif ev.startswith("hb_"):
                r["req"] = hbcur
            else:
                r["req"] = ("q%d" % rq) if rq > 0 else ""
            r["stream"] = e.get("stream", 0)
            r["a"] = e.get("a", 0)
            r["err"] = e.get("err", "none")
            if ev in ("r_hdr", "r_lookup", "r_closed", "r_discard"):
                r["stream"] = e.get("a", 0)
            if ev == "x_wbegin":
                nxt = [x for x in evs[i + 1:] if x["ev"] == "x_wend" and x.get("req") == e["req"] and x.get("conn") == cid]
                if not nxt:
                    return None, "x_wbegin without x_wend"
                r["wn"], r["werr"] = nxt[0]["a"], nxt[0]["err"]
        out.append(r)
        if ev == "hb_unknown":
            # the code calls closeWithError right after this point (one model step more: HBGiveUp)
            out.append(dict(r, ev="hb_giveup"))
    return out, None


def conformance(ctx, files):
    """Validate each scenario log against Conn.tla's actions. Returns (accepted, drifted, skipped, rejected list,
    property violations list)."""
    acc = drifted = skipped = 0
    rejected, propviol = [], []

    def one(path):
        evs = vf.read_ndjson(path)
        proj, why = project_for_conformance(evs)
        if proj is None:
            return path, None, why, evs, None
        cp = path.replace(".ndjson", ".conf.ndjson")
        vf.write_ndjson(cp, proj)
        r = vf.run_tlc(ctx, "Trace_Conn", "Trace_Conn.cfg", workers=1, heap="3g", timeout=900, env={"VF_TRACE": cp},
                       deadlock=False, dfs=True, name="conf_" + os.path.basename(path), quiet=True)
        return path, r, None, evs, proj

    with cf.ThreadPoolExecutor(vf.NCPU) as ex:
        for path, r, why, evs, proj in ex.map(one, files):
            if r is None:
                skipped += 1
                continue
            hw = re.search(r'<<"HIGHWATER", (\d+)>>', r.out)
            dr = re.search(r'<<"DRIFT", (\d+)>>', r.out)
            if r.violated == "NotAccepted":
                acc += 1
                if dr and int(dr.group(1)) > 0:
                    drifted += 1
            elif r.violated and r.violated != "deadlock":
                at = proj[int(hw.group(1)) - 2] if hw and 1 < int(hw.group(1)) <= len(proj) + 1 else None
                propviol.append((path, r.violated, at, evs))
            elif r.ok:
                k = int(hw.group(1)) if hw else 0
                rejected.append((path, k, proj[k - 1] if 0 < k <= len(proj) else None))
            else:
                raise vf.Inconclusive("Trace_Conn failed on %s: %s\n%s" % (path, r.error, r.out[-2000:]))
    return acc, drifted, skipped, rejected, propviol
