"""C15 - paged iteration yields every row exactly once, in order, and then stops.

Paging.tla (scenario / property / paging machine) checked exhaustively by TLC; Gen_Paging.tla
enumerates every bounded case with what the property demands of it; harness/c15 runs each case
through Session.Query(...).Iter() against a scripted node (plus runs in which the prefetch
goroutine races the consumer); Trace_Paging.tla evaluates the property verdicts on every step of
every recorded iteration and checks conformance with the paging machine (deviation = drift)."""
import json, os, random, re, collections, concurrent.futures as cf
import vf

SCAN_KINDS = ("Scan", "MapScan", "SliceMap")
DRIFT_KINDS = {"request-after-failed-fetch", "error-not-identified", "rows-short-before-error", "query-page-state-changed"}


def _cases_from_tlc(ctx, tier):
    r = vf.run_tlc(ctx, "Gen_Paging", "Gen_Paging_%s.cfg" % tier, workers=1, heap="4g", timeout=900, deadlock=False,
                   name="gen_" + tier)
    if not r.ok:
        raise vf.Inconclusive("case generator failed: %s\n%s" % (r.error or r.violated, r.out[-2000:]))
    try:
        cases = vf.tlc_printed(r.out, "CASE")
    except ValueError as e:
        raise vf.Inconclusive("unparsable generator output: %s" % e)
    if len(cases) != r.distinct or not cases:
        raise vf.Inconclusive("generator printed %d cases for %d states" % (len(cases), r.distinct))
    cases.sort(key=lambda c: json.dumps({k: v for k, v in c.items() if k != "exp"}, sort_keys=True))
    for i, c in enumerate(cases):
        c["id"] = i + 1
    return cases, r


def _can_race(c):
    """A prefetch goroutine can exist: automatic paging, a Scan-based consumer, a threshold > 0 and a page
    that has a successor and more rows than its trigger position."""
    if c["mode"] != "auto" or c["kind"] not in SCAN_KINDS or c["q"] == 0:
        return False
    for n in c["pages"][:-1]:
        if n > max(1, ((4 - c["q"]) * n) // 4):
            return True
    return False


def _crash_site(out):
    """If the test process was taken down by a Go panic / fatal error: (who, frame, text) where who is "driver"
    when the first frame of package gocql on the crashing goroutine's stack is repository code, "harness" when it is
    one of the overlaid zz_vf_ files; None when the output shows no crash."""
    m = re.search(r"^(panic: .*|fatal error: .*)$", out, re.M)
    if not m:
        return None
    tail = out[m.start():]
    g = re.search(r"^goroutine \d+ \[running[^\]]*\]:\n((?:.*\n)+?)(?:\n|\Z)", tail, re.M)
    block = g.group(1) if g else tail
    frames = re.findall(r"^(\S.*)\n\t(\S+?):(\d+)", block, re.M)
    for fn, path, line in frames:
        if "gocql" not in fn:
            continue                      # runtime, sync, testing ...
        fn = re.sub(r"\([^()]*\)$", "", fn)   # the argument list
        base = os.path.basename(path)
        fn = fn.split("gocql/gocql.")[-1].split("gocql.")[-1]
        if base.startswith("zz_vf_"):
            return "harness", "%s (%s:%s)" % (fn, base, line), tail[:3000]
        return "driver", "%s (%s:%s)" % (fn, base, line), tail[:3000]
    return "harness", "no gocql frame", tail[:3000]


def _driver_died(ctx, binary, out, byrun, byid):
    """The test process died while driving the iterations. Returns True when a violation was recorded."""
    site = _crash_site(out)
    if site is None or site[0] != "driver":
        return False
    who, frame, text = site
    cands = []
    for f in sorted(os.listdir(ctx.tmp)):
        if f.startswith("c15_progress_"):
            try:
                cands.append(int(open(os.path.join(ctx.tmp, f)).read().strip()))
            except ValueError:
                pass
    # which of the jobs that were under way does it? each alone in a child process, a few attempts (the crash may
    # sit in the prefetch goroutine and need its timing)
    culprit, ctext = None, text
    for job in cands:
        if job not in byrun:
            continue
        one = os.path.join(ctx.tmp, "c15_one.ndjson")
        for attempt in range(3):
            r = dict(byrun[job])
            if attempt:
                r["sched"] = attempt
            vf.write_ndjson(one, [r])
            rc, o = vf.run_gotest(ctx, binary, "^TestVfC15Run$", env={"VF_RUNS": one, "VF_WORKERS": 1}, timeout=300, check=False)
            s2 = _crash_site(o)
            if s2 and s2[0] == "driver":
                culprit, frame, ctext = byrun[job], s2[1], s2[2]
                break
        if culprit:
            break
    fn = frame.split(" (")[0]
    if culprit:
        what = ("the driver took the process down (%s) while iterating: %s kind=%s mode=%s pages=%s prefetch=%s/4 fail=%s "
                "prep=%s skip=%s plan=%s" % (frame, "job %d" % culprit["run"], culprit["kind"], culprit["mode"], culprit["pages"],
                                            culprit["q"], culprit["fail"], culprit["prep"], culprit["skip"], culprit["plan"]))
        detail = dict(case=byid[culprit["id"]], run=culprit, stack=ctext)
    else:
        what = ("the driver took the process down (%s) while iterating one of the jobs %s (not reproduced in isolation: "
                "timing dependent)" % (frame, cands))
        detail = dict(candidates=[byrun[j] for j in cands if j in byrun], stack=ctext)
    ctx.violation("driver-crashed/" + fn, what, detail)
    ctx.cov = dict(states=0, transitions=0, traces_validated_against_impl=0, driver_crashed=True,
                   samples=[dict(crash=frame, case=(culprit or {}))])
    return True


def _monitor(ctx, path):
    r = vf.run_tlc(ctx, "Trace_Paging", "Trace_Paging.cfg", workers=1, heap="3g", timeout=1500, env={"VF_TRACE": path},
                   deadlock=False, name="mon_" + os.path.basename(path), quiet=True)
    return path, r


def run(ctx):
    quick = ctx.tier == "quick"
    ctx.level = "model_checking"
    tier = ctx.tier
    replay_cases = None
    if getattr(ctx, "replay", None):
        rp = json.load(open(ctx.replay))
        replay_cases = [v["detail"]["case"] for v in rp.get("violations", []) if isinstance(v.get("detail"), dict) and v["detail"].get("case")]
        replay_cases = list({c["id"]: c for c in replay_cases}.values())
        if not replay_cases:
            raise vf.Inconclusive("replay file holds no case")

    # ---- 1. model pass: every interleaving of consumer, prefetch goroutine and node, every bounded scenario
    dev = bool(os.environ.get("VF_C15_DEV"))   # development only: small model pass (the evidence says so)
    # the three model passes are independent: side by side (each is partly serial), the Go build meanwhile
    vf._scratch_spec_dir(ctx, "w")
    half = 4 if dev else max(4, vf.NCPU // 2)
    with cf.ThreadPoolExecutor(4) as ex:
        f_mc = ex.submit(vf.tlc_must_pass, ctx, "MC_Paging", "MC_Paging_live.cfg" if dev else "MC_Paging_full.cfg", workers=half,
                         timeout=900, heap="6g", deadlock=False, name="mc_full")
        f_live = ex.submit(vf.tlc_must_pass, ctx, "MC_Paging", "MC_Paging_live.cfg" if quick else "MC_Paging_livefull.cfg",
                           workers=4 if quick else half, timeout=1500, heap="6g", deadlock=False, name="mc_live")
        # the same Query value executed again (after complete / abandoned iterations): safety + termination
        f_rex = ex.submit(vf.tlc_must_pass, ctx, "MC_Paging", "MC_Paging_reexec.cfg", workers=half, timeout=1500, heap="6g",
                          deadlock=False, name="mc_reexec")
        f_build = ex.submit(vf.build_gotest, ctx, ".", ["common", "c15"])
        mc, live, rex = f_mc.result(), f_live.result(), f_rex.result()
        f_build.result()
    if dev:
        ctx.notes.append("VF_C15_DEV set: the exhaustive model pass ran with the small bounds only")
    states, trans = mc.distinct + live.distinct + rex.distinct, mc.generated + live.generated + rex.generated
    gen_states = mon_states = 0

    # ---- 2. cases with the property's expectations, from TLC
    if replay_cases is None:
        cases, gen = _cases_from_tlc(ctx, tier)
        gen_states = gen.distinct
    else:
        cases = replay_cases
    byid = {c["id"]: c for c in cases}
    rng = random.Random(ctx.seed)
    runs = []
    for c in cases:
        runs.append(dict(id=c["id"], sched=0))
    racy = [c for c in cases if _can_race(c) and len(c["plan"]) == 1 and c["conc"] == 1 and c["pin"] == "no"]
    multi = [c for c in cases if len(c["plan"]) > 1]
    # re-executed Query values also under racing schedules (a prefetch of an abandoned iterator under way)
    racy += [c for c in multi if _can_race(c)]
    nrace = min(len(racy) * 3, 1500 if quick else 30000) if replay_cases is None else len(racy) * 6
    if racy:
        pick = [racy[rng.randrange(len(racy))] for _ in range(nrace)] if nrace < len(racy) * 3 else racy * (nrace // len(racy))
        for k, c in enumerate(pick):
            runs.append(dict(id=c["id"], sched=1 + (k % 4) + 4 * rng.randrange(1000)))
    # concurrent iterations of one prepared statement: the windows in which two of them can meet inside the driver
    # (state shared through the statement cache entry) are a few instructions wide - every such case many times over
    concs = [c for c in cases if c["conc"] > 1]
    nrep = (int(os.environ.get("VF_C15_CONCREP", "0")) or (40 if quick else 400)) if replay_cases is None else 200
    for c in concs:
        for k in range(nrep):
            runs.append(dict(id=c["id"], sched=1 + rng.randrange(4000)))
    for k, r in enumerate(runs):
        r["run"] = k + 1
        c = byid[r["id"]]
        for f in ("pages", "q", "kind", "fail", "mode", "start", "prep", "skip", "size", "plan", "rebind", "opt", "conc", "pin"):
            r[f] = c[f]
        r["starts"] = [x["start"] for x in c["exp"]["execs"]]
    byrun = {r["run"]: r for r in runs}      # job number -> job
    nexec = sum(max(len(r["plan"]), r["conc"]) for r in runs)
    rp = os.path.join(ctx.tmp, "c15_runs.ndjson")
    vf.write_ndjson(rp, runs)
    ctx.log("cases=%d (re-executing one Query value: %d; can race: %d; concurrent: %d x %d) jobs=%d iterations=%d" % (
        len(cases), len(multi), len(racy), len(concs), 1 + nrep, len(runs), nexec))

    # ---- 3. the real driver
    binary = vf.build_gotest(ctx, ".", ["common", "c15"])
    nshards = 8 if quick else 16
    rc, out = vf.run_gotest(ctx, binary, "^TestVfC15Run$", env={"VF_RUNS": rp, "VF_WORKERS": nshards}, timeout=1500, check=False)
    if rc in (124, 137):
        raise vf.Inconclusive("the driver run timed out:\n" + out[-3000:])
    m = re.search(r"^VFSUMMARY (.*)$", out, re.M)
    if not m or "--- PASS" not in out:
        # a panic in a goroutine of the driver's (the prefetch) cannot be recovered by the harness: the child process
        # dies. That is the driver failing to iterate (violation); anything else is the machinery (exit 2).
        if _driver_died(ctx, binary, out, byrun, byid):
            ctx.cov["states"], ctx.cov["transitions"] = states, trans
            return
        raise vf.Inconclusive("the driver run did not complete:\n" + out[-3000:])
    summ = json.loads(m.group(1))
    ctx.log("driver: %s" % summ)
    results = vf.read_ndjson(os.path.join(ctx.tmp, "c15_results.ndjson"))
    if len(results) != nexec:
        raise vf.Inconclusive("%d results for %d iterations" % (len(results), nexec))
    env = [r for r in results if r["env"]]
    if env:
        if len(env) > max(3, nexec // 200) or any(r["env"].startswith("hang") for r in env):
            raise vf.Inconclusive("%d runs were disturbed by the environment, e.g. run %d: %s" % (
                len(env), env[0]["run"], env[0]["env"][:1500]))
        ctx.notes.append("%d runs disturbed by the environment (timeouts), not counted" % len(env))
    if summ.get("stale"):
        ctx.add_drift("%d page requests reached the node after their iteration had ended" % summ["stale"])

    # ---- 4. TLC over the recorded iterations: property verdicts at every step + conformance
    files = sorted(os.path.join(ctx.tmp, f) for f in os.listdir(ctx.tmp) if re.match(r"c15_trace_\d+\.ndjson$", f))
    files = [f for f in files if os.path.getsize(f) > 0]
    # a JVM start costs more than thousands of trace steps: few, larger TLC runs in the quick tier
    nmon = 8 if quick else 16
    if len(files) > nmon:
        merged = []
        for i in range(nmon):
            mp = os.path.join(ctx.tmp, "c15_mon_%d.ndjson" % i)
            with open(mp, "w") as o:
                for f in files[i::nmon]:
                    o.write(open(f).read())
            merged.append(mp)
        files = merged
    mon = collections.defaultdict(list)       # run -> findings
    cnt = dict(traces=0, conforming=0, steps=0)
    with cf.ThreadPoolExecutor(min(len(files), vf.NCPU) or 1) as ex:
        for path, r in ex.map(lambda f: _monitor(ctx, f), files):
            if not r.ok:
                raise vf.Inconclusive("Trace_Paging failed on %s: violated=%s %s\n%s" % (
                    os.path.basename(path), r.violated, r.error, r.out[-2500:]))
            done = vf.tlc_printed(r.out, "MONDONE")
            if len(done) != 1:
                raise vf.Inconclusive("Trace_Paging did not reach the end of %s" % path)
            for k in cnt:
                cnt[k] += done[0][k]
            for f in vf.tlc_printed(r.out, "MONOUT"):
                mon[f["run"]].append(f)
            mon_states += r.distinct
    good = len(results) - len(env)
    if cnt["traces"] != good:
        raise vf.Inconclusive("TLC validated %d iterations, the driver recorded %d" % (cnt["traces"], good))
    ctx.log("TLC: %d iterations, %d steps, %d conform to the paging machine, findings on %d" % (
        cnt["traces"], cnt["steps"], cnt["conforming"], len(mon)))

    # ---- 5. verdict: TLC's expectation vs the observation (spec -> code) and TLC's verdicts on the traces (code -> spec)
    viol = collections.OrderedDict()
    drift = collections.OrderedDict()

    def descr(run, ex=1):
        d = "%s consumer, %s paging, pages %s, prefetch %s/4, failing page %s%s, %s%s%s" % (
            run["kind"], run["mode"], run["pages"], run["q"], run["fail"] or "none",
            (", caller state = token %d" % run["start"]) if run["mode"] == "manual" else "",
            {"query": "QUERY", "exec0": "EXECUTE without values", "exec2": "EXECUTE with 2 values"}[run["prep"]],
            ", skip-metadata" if run["skip"] else "", ", racing schedule %d" % run["sched"] if run["sched"] else "")
        if run.get("opt", "none") != "none":
            d += ", option " + run["opt"]
        if run.get("pin", "no") != "no":
            d += ", pinned to one connection of a two-node session (Conn.query)%s" % (
                "; that connection is lost after page %d" % (run["fail"] - 1) if run["pin"] == "lost" else "")
        if run["conc"] > 1:
            d += ", one of %d goroutines iterating the same prepared statement at once (own bound key each)" % run["conc"]
        if len(run["plan"]) > 1:
            d += ", execution %d of the same Query value (plan %s: rows taken before Close, -1 = all%s)" % (
                ex, run["plan"], {0: "", 1: "; Bind (and PageState) again before each re-execution", 2: "; Bind(values) only before each re-execution"}[run["rebind"]])
        return d

    def short(l):
        return str(l) if len(l) <= 14 else "%s ... (%d in all)" % (str(l[:14])[:-1], len(l))

    def is_prefix(a, b):
        return len(a) <= len(b) and b[:len(a)] == a

    mismatches = 0
    unclassified = 0
    for res in results:
        if res["env"]:
            continue
        run = byrun[res["job"]]
        exp = byid[run["id"]]["exp"]
        ee = exp["execs"][res["exec"] - 1]
        rows = [list(x) for x in res["rows"]]
        diffs = []
        if ee["ended"] == "abandoned":
            # the caller stops early as planned: the rows so far, and no request that is out of line
            if not is_prefix(res["reqs"], ee["reqs"]):
                diffs.append("requests carried paging states %s, the property demands a prefix of %s" % (short(res["reqs"]), ee["reqs"]))
        elif res["reqs"] != ee["reqs"]:
            diffs.append("requests carried paging states %s, the property demands %s" % (short(res["reqs"]), ee["reqs"]))
        if len(set(res["reqf"])) > 1:
            diffs.append("the page requests differ in more than the paging state: %s" % sorted(set(res["reqf"])))
        if rows != ee["rows"]:
            diffs.append("rows %s, the property demands %s" % (short(rows), ee["rows"]))
        if res["ended"] != ee["ended"]:
            diffs.append("ended %s (%s), the property demands %s" % (res["ended"], res["errmsg"] or "no error", ee["ended"]))
        elif res["ended"] == "error" and res["err"] != ee["err"]:
            diffs.append("ended with %r, the failed fetch was that of page %d" % (res["errmsg"], ee["err"]))
        if run["mode"] == "manual" and res["ended"] == "normal" and res["exposed"] != ee["exposed"]:
            diffs.append("PageState() shows token %d, the page carried %d" % (res["exposed"], ee["exposed"]))
        if res.get("changed"):
            diffs.append("%d of the rows the caller kept had other content when read again after the iteration" % res["changed"])
        if res["qtok"] not in (-2, ee["start"]):
            diffs.append("the execution left paging state token %d in the caller's Query (the caller had put in %d)" % (
                res["qtok"], ee["start"]))
        fs = [f for f in mon.get(res["run"], [])]
        if diffs:
            mismatches += 1
        if diffs and not [f for f in fs if f["kind"] != "not-explained-by-the-paging-machine"]:
            # the observation differs from what TLC computed for this case although no verdict operator of the trace
            # specification fired: still a contradiction of the TLC-computed expectation, reported as such
            unclassified += 1
            fs = fs + [dict(what="viol", kind="differs-from-expectation", line="-", ev="end")]
        for f in fs:
            what = "%s at trace step %s (%s event): %s; %s" % (f["kind"], f["line"], f["ev"], descr(run, res["exec"]), "; ".join(diffs) or "-")
            if f["what"] == "viol" and f["kind"] not in DRIFT_KINDS:
                key = "%s/%s/%s" % (f["kind"], run["kind"], run["mode"])
                if run.get("opt", "none") != "none":
                    key += "/opt-" + run["opt"]
                if run["conc"] > 1:
                    key += "/concurrent"
                if run.get("pin", "no") != "no":
                    key += "/pinned-" + run["pin"]
                if res["exec"] > 1:
                    key += "/re-executed"
                e = viol.setdefault(key, dict(n=0, what=what, detail=dict(case=byid[run["id"]], run=run, observed=res, finding=f)))
                e["n"] += 1
            else:
                e = drift.setdefault(f["kind"], dict(n=0, what=what))
                e["n"] += 1
    if unclassified:
        ctx.notes.append("%d observations differed from TLC's expectation without a verdict of Trace_Paging's operators" % unclassified)
    for key, e in viol.items():
        ctx.violation(key, "%s [%d run(s)]" % (e["what"], e["n"]), e["detail"])
    for kind, e in drift.items():
        ctx.add_drift("%d run(s): %s" % (e["n"], e["what"]))
    ctx.log("observations differing from TLC's expectation: %d; violation classes: %d; drift classes: %d" % (
        mismatches, len(viol), len(drift)))

    sample = next((r for r in results if not r["env"] and len(r["reqs"]) >= 2 and r["exec"] >= 2), results[len(results) // 2])
    srun = byrun[sample["job"]]
    ctx.cov = dict(
        states=states, transitions=trans,
        traces_validated_against_impl=cnt["traces"],
        exhaustive=not dev,
        cases_from_tlc=len(cases), cases_reexecuting_one_query=len(multi), jobs=len(runs), runs=nexec,
        racing_jobs=len(runs) - len(cases),
        runs_matching_expectation=good - mismatches, trace_steps=cnt["steps"], traces_conforming=cnt["conforming"],
        generator_states=gen_states, trace_spec_states=mon_states,
        model_configs=[dict(cfg="MC_Paging_live (VF_C15_DEV)" if dev else "MC_Paging_full", distinct=mc.distinct, generated=mc.generated, depth=mc.depth),
                       dict(cfg="MC_Paging_live" if quick else "MC_Paging_livefull", distinct=live.distinct, generated=live.generated),
                       dict(cfg="MC_Paging_reexec", distinct=rex.distinct, generated=rex.generated, depth=rex.depth)],
        samples=[dict(case={k: srun[k] for k in ("pages", "q", "kind", "fail", "mode", "start", "prep", "skip", "size", "sched", "plan", "rebind", "opt", "conc")},
                      expected=byid[srun["id"]]["exp"],
                      observed={k: sample[k] for k in ("exec", "reqs", "rows", "ended", "err", "exposed", "qtok")})],
    )
    ctx.assumptions += [
        "bounds: <= 4 pages, <= 3 rows per page (0 allowed anywhere), prefetch in {0, 1/4, 1/2, 1}; the quick tier replays "
        "<= 3 pages with one request variant per scenario, the thorough tier <= 4 pages x every variant",
        "the scripted node is an honest server: it serves the page the request's paging state names, never an empty "
        "paging state together with has_more_pages, never more rows than the page size",
        "a failed fetch is an ERROR response (server error / overloaded / read timeout); lost connections and timeouts "
        "during paging belong to C06/C13",
        "no retry policy (the default): retries of a failed page belong to C13",
    ]
