"""C12 - encoded values are the CQL specification's encoding, byte for byte (both directions).

Specification as oracle (binding D of DESIGN.md): spec/Cql.tla + spec/BigNum.tla evaluated by TLC.
  spec -> code  Gen_Cql.tla enumerates boundary cases (one TLC state per case) and prints, for each,
                the acceptable encodings and the value every documented decode target must hold; the
                Go harness (harness/c12) runs Marshal / Unmarshal on them; this module compares.
  code -> spec  the harness records seeded random vectors from the real code; Trace_Cql.tla (TLC)
                judges each of them.
The module also carries the machinery shared with C02 (checks/c02.py imports it).
"""
import json, os, re, concurrent.futures as cf
import vf

FIXED = {"tinyint": 1, "smallint": 2, "int": 4, "bigint": 8, "counter": 8}
UNSIGNED = {"uint", "uint8", "uint16", "uint32", "uint64", "nuint", "nuint8", "nuint16", "nuint32", "nuint64"}
DAY_MS = 86400000


# ------------------------------------------------------------------ running the machinery

def harness_dirs():
    d = ["c12"]
    if [f for f in os.listdir(os.path.join(vf.HARNESS, "common")) if f.endswith(".go")]:
        d.insert(0, "common")
    return d


def gen_cases(ctx, nshards=None):
    """All cases of the tier with the specification's expectations, from TLC (sharded over processes)."""
    cfg = "Gen_Cql_quick.cfg" if ctx.tier == "quick" else "Gen_Cql_thorough.cfg"
    nshards = nshards or max(2, min(12, vf.NCPU * 3 // 4))

    def one(i):
        return vf.run_tlc(ctx, "Gen_Cql", cfg, workers=1, heap="2g", timeout=800, deadlock=False,
                          env={"VF_SHARD": i, "VF_NSHARDS": nshards}, name="gen_%d" % i, quiet=True)

    cases, bigs, states = [], [], 0
    with cf.ThreadPoolExecutor(nshards) as ex:
        for r in ex.map(one, range(nshards)):
            if not r.ok:
                raise vf.Inconclusive("case generator failed: %s %s\n%s" % (r.violated, r.error, r.out[-3000:]))
            cs = vf.tlc_printed(r.out, "CASE")
            bs = vf.tlc_printed(r.out, "BIG")
            if len(cs) + len(bs) != r.distinct:
                raise vf.Inconclusive("case generator printed %d cases for %d states" % (len(cs) + len(bs), r.distinct))
            cases += cs
            bigs += bs
            states += r.distinct
    cases.sort(key=lambda c: c["id"])
    bigs.sort(key=lambda c: c["id"])
    if not cases or len({c["id"] for c in cases}) != len(cases) or not bigs:
        raise vf.Inconclusive("case generator produced no / duplicate cases")
    ctx.log("TLC generated %d cases + %d size-limit descriptions (%d shards)" % (len(cases), len(bigs), nshards))
    return cases, bigs


def replay(ctx, binary, cases, bigs):
    """Runs the cases on the real code. Returns (results by case id, later records, big results by id):
    later records are Marshal outputs read again after further values were marshalled (hold-and-recheck),
    the outputs of the marshalQueryValue path for the bind values of one statement, and the outputs of
    marshalling concurrently with other goroutines."""
    cp, rp, bp = os.path.join(ctx.tmp, "cases.ndjson"), os.path.join(ctx.tmp, "results.ndjson"), os.path.join(ctx.tmp, "big.ndjson")
    vf.write_ndjson(cp, cases)
    vf.write_ndjson(bp, bigs)
    rc, out = vf.run_gotest(ctx, binary, "^TestVfC12Replay$", timeout=1500, env={
        "VF_CASES": cp, "VF_RESULTS": rp, "VF_BIG": bp, "VF_CONC_DECODES": 60000 if ctx.tier == "quick" else 1500000})
    m = re.search(r"^VFSUMMARY (.*)$", out, re.M)
    if not m or not os.path.exists(rp):
        raise vf.Inconclusive("replay driver failed:\n" + out[-3000:])
    summ = json.loads(m.group(1))
    res, laters, bigres, concs = {}, [], {}, []
    for r in vf.read_ndjson(rp):
        if "conc_of" in r:
            concs.append(r)
        elif "later_of" in r:
            laters.append(r)
        elif r.get("big"):
            bigres[r["id"]] = r
        else:
            res[r["id"]] = r
    if len(res) != len(cases) or len(bigres) != len(bigs):
        raise vf.Inconclusive("replay driver returned %d results for %d cases, %d for %d size-limit cases" % (
            len(res), len(cases), len(bigres), len(bigs)))
    bad = [r for r in list(res.values()) + list(bigres.values()) if "harness" in r]
    if bad:
        raise vf.Inconclusive("harness could not build %d cases, e.g. %s" % (len(bad), json.dumps(bad[0])[:400]))
    ctx.log("replayed %d cases on the real Marshal/Unmarshal: %s" % (len(res), summ))
    ctx.concs = concs
    return res, laters, bigres, summ


def random_vectors(ctx, binary, n):
    """Seeded random vectors recorded from the real code, judged by TLC. Returns (records, verdicts)."""
    vp = os.path.join(ctx.tmp, "vectors.ndjson")
    rc, out = vf.run_gotest(ctx, binary, "^TestVfC12Random$", env={"VF_VECTORS": vp, "VF_NVECTORS": n}, timeout=600)
    if "VFSUMMARY" not in out or not os.path.exists(vp):
        raise vf.Inconclusive("random vector driver failed:\n" + out[-3000:])
    recs = vf.read_ndjson(vp)
    if len(recs) < n // 2:
        raise vf.Inconclusive("random vector driver produced only %d vectors" % len(recs))
    return recs, validate_vectors(ctx, recs)


def validate_vectors(ctx, recs):
    nsh = max(1, min(vf.NCPU, 12, len(recs) // 50 + 1))
    shards = [recs[i::nsh] for i in range(nsh)]

    def one(i):
        p = os.path.join(ctx.tmp, "vec_%d.ndjson" % i)
        vf.write_ndjson(p, shards[i])
        return vf.run_tlc(ctx, "Trace_Cql", "Trace_Cql.cfg", workers=1, heap="2g", timeout=800, deadlock=False,
                          env={"VF_TRACE": p}, name="vec_%d" % i, quiet=True)

    verdicts = {}
    with cf.ThreadPoolExecutor(nsh) as ex:
        for i, r in enumerate(ex.map(one, range(nsh))):
            if not r.ok:
                raise vf.Inconclusive("vector validation failed: %s %s\n%s" % (r.violated, r.error, r.out[-3000:]))
            vs = vf.tlc_printed(r.out, "VEC")
            if len(vs) != len(shards[i]):
                raise vf.Inconclusive("TLC judged %d of %d vectors of shard %d" % (len(vs), len(shards[i]), i))
            for v in vs:
                verdicts[v["n"]] = v
    ctx.log("TLC judged %d vectors recorded from the real code" % len(verdicts))
    return verdicts


def replay_run(ctx, prop):
    """bin/check <ID> --replay PATH: re-execute the inputs of the reported violations on the current tree;
    the real results are judged by TLC (Trace_Cql.tla)."""
    rp = json.load(open(ctx.replay))
    inputs, seen = [], set()
    for v in rp.get("violations", []):
        d = v.get("detail") or {}
        if "case" in d:
            c = d["case"]
            i = dict(T=c["T"], p=c["p"], K=c["K"], gv=c["gv"], targets=[t["K"] for t in c["targets"]])
        elif "vector" in d:
            r = d["vector"]
            i = dict(T=r["T"], p=r["p"], K=r["K"], gv=r["gv"], targets=[x["K"] for x in r["decs"] if x.get("mode", "fresh") == "fresh"])
        else:
            continue
        k = json.dumps(i, sort_keys=True)
        if k not in seen:
            seen.add(k)
            inputs.append(i)
    if not inputs:
        raise vf.Inconclusive("no replayable inputs in %s" % ctx.replay)
    binary = vf.build_gotest(ctx, ".", harness_dirs())
    ip, vp = os.path.join(ctx.tmp, "inputs.ndjson"), os.path.join(ctx.tmp, "rerun.ndjson")
    vf.write_ndjson(ip, inputs)
    rc, out = vf.run_gotest(ctx, binary, "^TestVfC12Rerun$", env={"VF_INPUTS": ip, "VF_VECTORS": vp}, timeout=300)
    if "VFSUMMARY" not in out or not os.path.exists(vp):
        raise vf.Inconclusive("rerun driver failed:\n" + out[-3000:])
    recs = vf.read_ndjson(vp)
    verdicts = validate_vectors(ctx, recs)
    st = Stats()
    judge_vectors(ctx, recs, verdicts, st, prop)
    ctx.log("replayed %d inputs of %s: %d violation(s)" % (len(recs), ctx.replay, len(ctx.violations)))
    ctx.cov = dict(evaluations=len(recs) + st["vec_decodes"], distinct_nontrivial=len(inputs),
                   rule="replay of the inputs of reported violations (bin/check --replay); distinct by (type, protocol, kind, value)",
                   replay_of=ctx.replay, samples=[dict(type=tshape(i["T"]), go=kshape(i["K"]), proto=i["p"], value=i["gv"]) for i in inputs[:3]])


# ------------------------------------------------------------------ comparing abstract values

def canon(T, v, K=None):
    """Order-insensitive normal form (sets, maps), mirrors Canon / CanonK in Cql.tla; pure re-arrangement.
    K: the kind of the decode target the value was read from (a partial struct lists UDT fields in its own order)."""
    if not isinstance(v, dict):
        return v
    while K is not None and K.get("g") == "ptr":
        K = K["e"]
    k, t = v.get("k"), T.get("t")
    if k == "list":
        ek = K.get("e") if K and K.get("g") in ("slice", "array") else None
        es = [canon(T.get("e", {}), e, ek) for e in v["es"]]
        if t == "set":
            es.sort(key=lambda e: json.dumps(e, sort_keys=True))
        return {"k": "list", "es": es}
    if k == "map":
        kk, vk = (K.get("kk"), K.get("vk")) if K and K.get("g") == "map" else (None, None)
        ps = [{"key": canon(T.get("kt", {}), p["key"], kk), "val": canon(T.get("vt", {}), p["val"], vk)} for p in v["ps"]]
        ps.sort(key=lambda p: json.dumps(p["key"], sort_keys=True))
        return {"k": "map", "ps": ps}
    if k == "tuple":
        ts = T.get("es", [])
        out = []
        for i, e in enumerate(v["es"]):
            ti, ki = i, None
            if K and K.get("g") == "pstruct" and i < len(K["ix"]):
                ti, ki = K["ix"][i] - 1, K["es"][i]
            elif K and K.get("g") in ("struct", "ifaces") and i < len(K["es"]):
                ki = K["es"][i]
            elif K and K.get("g") in ("slice", "array"):
                ki = K["e"]
            out.append(canon(ts[ti] if ti < len(ts) else {}, e, ki))
        return {"k": "tuple", "es": out}
    return v


def same(T, a, b, K=None):
    return json.dumps(canon(T, a, K), sort_keys=True) == json.dumps(canon(T, b, K), sort_keys=True)


# ------------------------------------------------------------------ naming the failing input class

def strip(K):
    while K["g"] == "ptr":
        K = K["e"]
    return K


def big(v):
    x = int.from_bytes(bytes(v["m"]), "big")
    return -x if v["neg"] else x


def tshape(T):
    t = T["t"]
    if t in ("list", "set"):
        return "%s(%s)" % (t, tshape(T["e"]))
    if t == "map":
        return "map(%s,%s)" % (tshape(T["kt"]), tshape(T["vt"]))
    if t in ("tuple", "udt"):
        return "%s(%s)" % (t, ",".join(tshape(e) for e in T["es"]))
    return t


def kshape(K):
    g = K["g"]
    if g in ("ptr", "slice", "array", "setmap"):
        return "%s(%s)" % (g, kshape(K["e"]))
    if g == "map":
        return "map(%s,%s)" % (kshape(K["kk"]), kshape(K["vk"]))
    if g in ("struct", "ifaces", "udtmap"):
        return "%s(%s)" % (g, ",".join(kshape(e) for e in K["es"]))
    if g == "pstruct":
        return "pstruct-%s(%s)" % ("byname" if K.get("byname") else "bytag", ",".join("%d:%s" % (i, kshape(e)) for i, e in zip(K["ix"], K["es"])))
    return g


def leaf_class(T, K, gv):
    """Input class of a scalar (type, kind, value) that belongs to a confirmed defect (DESIGN section 9)."""
    t, g = T["t"], strip(K)["g"]
    if gv.get("k") in ("null", "absent", "empty") or K["g"] == "nil":
        return None
    if t in ("bigint", "counter") and g == "bigint":
        return "bigint-from-bigint-minimal-length"
    if t == "duration" and g == "nint64":
        return "duration-named-int64-raw"
    if t == "date" and g in ("time", "int64", "time_p9", "time_m5") and gv["k"] == "int" and big(gv) < 0 and big(gv) % DAY_MS != 0:
        return "date-pre-epoch-truncation"
    if t in FIXED and g in UNSIGNED and gv["k"] == "int" and big(gv) >= 2 ** (8 * FIXED[t] - 1):
        return "unsigned-wrap-fixed-width"
    return None


def nested_classes(T, K, gv):
    out = set()
    t, g = T["t"], K["g"]
    if g == "nil" or gv.get("k") in ("null", "absent"):
        return out
    if g == "ptr":
        return nested_classes(T, K["e"], gv)
    if t in ("list", "set"):
        for e in gv["es"]:
            out |= nested_classes(T["e"], K["e"], e)
    elif t == "map":
        for p in gv["ps"]:
            out |= nested_classes(T["kt"], K["kk"], p["key"]) | nested_classes(T["vt"], K["vk"], p["val"])
    elif t in ("tuple", "udt"):
        for i, e in enumerate(gv["es"]):
            ke = K["e"] if g in ("slice", "array") else K["es"][i]
            if g == "ifaces" and t == "tuple" and ke["g"] == "ptr" and e.get("k") == "null":
                out.add("tuple-typed-nil-length0")
            out |= nested_classes(T["es"][i], ke, e)
    else:
        c = leaf_class(T, K, gv)
        if c:
            out.add(c)
    return out


def symptom_ok(cls, case, res, spec):
    """Does the real Marshal output show the symptom of the confirmed defect `cls` (so that a
    *different* failure on the same inputs gets a different key)?"""
    gv, t = case["gv"], case["T"]["t"]
    if res.get("st") != "ok":
        return False
    b = bytes(res["b"])
    if cls == "bigint-from-bigint-minimal-length":
        return len(b) != 8
    if cls == "duration-named-int64-raw":
        x = big(gv)
        return -2 ** 63 <= x < 2 ** 63 and b == x.to_bytes(8, "big", signed=True)
    if cls == "date-pre-epoch-truncation":
        return spec.get("st") == "ok" and len(b) == 4 and int.from_bytes(b, "big") == int.from_bytes(bytes(spec["b"]), "big") + 1
    if cls == "unsigned-wrap-fixed-width":
        w = FIXED[t]
        return len(b) == w and int.from_bytes(b, "big") == big(gv) % 2 ** (8 * w)
    if cls == "tuple-typed-nil-length0":
        sb = bytes(spec.get("b", []))
        return spec.get("st") == "ok" and len(sb) == len(b) and sb != b and all(x == y or (x == 255 and y == 0) for x, y in zip(sb, b))
    return False


def has_tuple(T):
    t = T["t"]
    if t == "tuple":
        return True
    return any(has_tuple(x) for x in ([T[f] for f in ("e", "kt", "vt") if f in T] + list(T.get("es", []))))


def key_for(case, res, spec, phase, what, target=None, err=None):
    """Stable class identifier of a failing case."""
    T, K, gv = case["T"], case["K"], case["gv"]
    scalar = T["t"] not in ("list", "set", "map", "tuple", "udt")
    if what.startswith("panic") and phase in ("dec", "rt") and has_tuple(T) and err and re.search(
            r"reflect\.Set: value of type .* is not assignable to type|reflect\.MapOf: invalid key type", err):
        return "tuple-target-field-type-panic"
    if phase in ("enc", "rt"):
        if scalar:
            c = leaf_class(T, K, gv)
            if c and symptom_ok(c, case, res, spec):
                return c
        else:
            cs = nested_classes(T, K, gv)
            if cs == {"tuple-typed-nil-length0"} and T["t"] == "tuple" and symptom_ok("tuple-typed-nil-length0", case, res, spec):
                return "tuple-typed-nil-length0"
            if cs and res.get("st") == "ok":
                return "nested-" + "+".join(sorted(cs))
    k = "%s-%s-from-%s" % (phase, tshape(T), kshape(K))
    if target is not None:
        k += "-to-" + kshape(target)
    return k + "-" + what


def hexs(b):
    return bytes(b).hex() if isinstance(b, list) else str(b)


def show(case):
    s = "%s %s p%d" % (tshape(case["T"]), kshape(case["K"]), case["p"])
    if case.get("dec"):
        s += " value " + case["dec"]
    return s


# ------------------------------------------------------------------ verdicts, spec -> code

def judge_encoding(ctx, cases, results, stats):
    """C12, direction Marshal: real bytes against the specification's encodings."""
    for c in cases:
        r = results[c["id"]]
        if not c["claimed"]:
            stats["unclaimed"] += 1
            continue
        res = r["res"]
        st = res["st"]
        if st == "panic":
            ctx.violation(key_for(c, res, c["spec"], "enc", "panic"), "Marshal panicked on %s: %s" % (show(c), res.get("err")), dict(case=c, result=r))
        elif c["conv"] == "ok":
            if st == "err":
                if c["ref"]:
                    stats["refused_by_ruling"] += 1
                else:
                    ctx.add_drift("Marshal refuses a documented, encodable value (%s): %s" % (show(c), res.get("err")))
            elif not any(a["st"] == st and a["b"] == res["b"] for a in c["alts"]):
                ctx.violation(key_for(c, res, c["spec"], "enc", "bytes"),
                              "Marshal(%s) = %s, the protocol's encoding is %s" % (
                                  show(c), "null" if st == "null" else hexs(res["b"]),
                                  " | ".join("null" if a["st"] == "null" else hexs(a["b"]) for a in c["alts"][:3])),
                              dict(case=c, result=r))
            else:
                stats["enc_equal"] += 1
        else:
            if st in ("ok", "null"):
                ctx.violation(key_for(c, res, c["spec"], "enc", "accepted"),
                              "Marshal(%s) = %s although the column type has no encoding for the value" % (
                                  show(c), "null" if st == "null" else hexs(res["b"])), dict(case=c, result=r))
            else:
                stats["enc_refused_ok"] += 1


def judge_later(ctx, cases, results, laters, stats):
    """Hold-and-recheck (C12): what a slice returned by Marshal holds after further values were marshalled
    ("held", "concurrent"), what Marshal returns while other goroutines marshal ("concurrent-first") and what
    marshalQueryValue stored for each bind value once all values of the statement were marshalled ("statement")
    must still be an encoding of the value: judged against the same TLC expectation as the first output."""
    byid = {c["id"]: c for c in cases}
    for l in laters:
        c, r = byid[l["later_of"]], results[l["later_of"]]
        if not c["claimed"]:
            continue
        rl, mode = l["res_later"], l["mode"]
        stats["later_" + mode.replace("-", "_")] += 1
        if rl["st"] == r["res"]["st"] and rl["b"] == r["res"]["b"]:
            continue                                      # same as the first output, judged there
        what = "Marshal(%s), %s, = %s" % (show(c), {
            "held": "read again after later values were marshalled",
            "concurrent": "marshalled while other goroutines marshal, read again afterwards",
            "concurrent-first": "marshalled while other goroutines marshal",
            "statement": "as a bind value of a statement (marshalQueryValue), read after the statement's other values were marshalled"}[mode],
            rl["st"] if rl["st"] != "ok" else hexs(rl["b"]))
        if c["conv"] == "ok":
            if rl["st"] == "err":
                if not c["ref"]:
                    ctx.add_drift("%s: %s" % (what, rl.get("err")))
            elif not any(a["st"] == rl["st"] and a["b"] == rl["b"] for a in c["alts"]):
                ctx.violation(key_for(c, rl, c["spec"], "enc", "bytes-" + mode),
                              what + ", the protocol's encoding is %s (first read: %s)" % (
                                  " | ".join("null" if a["st"] == "null" else hexs(a["b"]) for a in c["alts"][:2]), hexs(r["res"]["b"])),
                              dict(case=c, result=r, later=l))
            else:
                stats["later_equal"] += 1
        elif rl["st"] in ("ok", "null"):
            ctx.violation(key_for(c, rl, c["spec"], "enc", "accepted-" + mode), what + " although the column type has no encoding for the value",
                          dict(case=c, result=r, later=l))


def judge_later_decodes(ctx, cases, results, laters, stats):
    """C02: bytes that changed after Marshal returned them (held / concurrent) or that the statement path stored
    (marshalQueryValue) were decoded by the real Unmarshal into every target of the case: the round trip must
    still give the value."""
    byid = {c["id"]: c for c in cases}
    for l in laters:
        c, r = byid[l["later_of"]], results[l["later_of"]]
        if not c["claimed"] or "decs" not in l or l["res_later"]["st"] not in ("ok", "null"):
            continue
        for d in l["decs"]:
            tg, x = c["targets"][d["i"]], d["res"]
            stats["later_round_trips"] += 1
            src = "Unmarshal(%s, the bytes of Marshal(%s) %s; first read %s) into %s" % (
                hexs(l["res_later"]["b"]), show(c), {"held": "read again after later values were marshalled", "concurrent": "read again after concurrent marshals",
                                                     "concurrent-first": "obtained under concurrent marshals", "statement": "stored by marshalQueryValue, read after the statement's other values"}[l["mode"]],
                hexs(r["res"]["b"]), kshape(tg["K"]))
            if x["st"] == "panic":
                ctx.violation(key_for(c, r["res"], c["spec"], "rt", "panic-" + l["mode"], tg["K"], x.get("err")), src + " panicked: %s" % x.get("err"), dict(case=c, later=l))
            elif x["st"] == "err":
                if not tg["mayerr"]:
                    ctx.violation(key_for(c, r["res"], c["spec"], "rt", "error-" + l["mode"], tg["K"]), src + " fails: %s" % x.get("err"), dict(case=c, later=l))
            elif x["st"] == "ok" and not same(c["T"], x["gv"], tg["exp"], tg["K"]):
                ctx.violation(key_for(c, r["res"], c["spec"], "rt", "value-" + l["mode"], tg["K"]),
                              src + " gives %s, expected %s" % (json.dumps(x["gv"])[:200], json.dumps(tg["exp"])[:200]), dict(case=c, later=l))
            else:
                stats["later_round_trips_equal"] += 1


def judge_concurrent_decodes(ctx, cases, results, stats, whichs):
    """Decodes repeated by eight goroutines at the same moment whose result differed from the sequential one:
    judged against the TLC expectation like any decode (Unmarshal must not share state between calls)."""
    byid = {c["id"]: c for c in cases}
    for d in getattr(ctx, "concs", []):
        if d["which"] not in whichs:
            continue
        c, r = byid[d["conc_of"]], results[d["conc_of"]]
        if not c["claimed"]:
            continue
        tg, x = c["targets"][d["i"]], d["res"]
        phase = "rt" if d["which"] == "real" else "dec"
        stats["concurrent_decodes_differing"] += 1
        src = "Unmarshal(%s of %s) into %s, while other goroutines decode other values" % (
            "reference encoding" if d["which"] == "spec" else "Marshal output " + hexs(r["res"]["b"]), show(c), kshape(tg["K"]))
        if x["st"] == "panic":
            ctx.violation(key_for(c, r["res"], c["spec"], phase, "panic-concurrent", tg["K"], x.get("err")), src + " panicked: %s" % x.get("err"), dict(case=c, conc=d))
        elif x["st"] == "err":
            if not tg["mayerr"]:
                ctx.violation(key_for(c, r["res"], c["spec"], phase, "error-concurrent", tg["K"]), src + " fails: %s" % x.get("err"), dict(case=c, conc=d))
        elif not same(c["T"], x["gv"], tg["exp"], tg["K"]):
            ctx.violation(key_for(c, r["res"], c["spec"], phase, "value-concurrent", tg["K"]),
                          src + " gives %s, expected %s" % (json.dumps(x["gv"])[:200], json.dumps(tg["exp"])[:200]), dict(case=c, conc=d))


def big_show(b):
    return "%s (protocol %d, element size %d, %d element(s))" % (b["form"], b["p"], b["size"], b["count"])


def judge_big(ctx, stats, prop):
    """The [short] framing limits: TLC states whether the framing can carry the described value
    (SizeEncodable), the total length and the first bytes of its encoding; the harness built the value and
    reports refusal / length / prefix (C12) and a summary of the round trip (C02)."""
    bigs, bigres = ctx.extra["bigs"], ctx.extra["bigres"]
    for b in bigs:
        r = bigres[b["id"]]
        stats["big_cases"] += 1
        if r["st"] == "panic":
            ctx.violation("enc-big-%s-panic" % b["form"], "Marshal of %s panicked: %s" % (big_show(b), r.get("err")), dict(big=b, result=r))
            continue
        if prop == "C12":
            if b["refuse"]:
                if r["st"] == "ok":
                    ctx.violation("enc-big-%s-accepted" % b["form"],
                                  "Marshal of %s returned %d bytes starting %s although the [short] framing of protocol <= 2 cannot carry it" % (
                                      big_show(b), r["total"], hexs(r["prefix"])), dict(big=b, result=r))
                else:
                    stats["big_refused_ok"] += 1
            elif r["st"] == "err":
                ctx.add_drift("Marshal refuses %s: %s" % (big_show(b), r.get("err")))
            elif r["total"] != b["total"] or r["prefix"][:len(b["prefix"])] != b["prefix"]:
                ctx.violation("enc-big-%s-bytes" % b["form"], "Marshal of %s: %d bytes starting %s, the protocol's encoding has %d bytes starting %s" % (
                    big_show(b), r["total"], hexs(r["prefix"]), b["total"], hexs(b["prefix"])), dict(big=b, result=r))
            else:
                stats["big_equal"] += 1
                # converse direction: these bytes have the length and the beginning of the reference encoding; Unmarshal
                # of them must give the described value back (element count; content compared by the harness)
                rt = r["rt"]
                if rt["st"] == "ok" and rt["count"] == b["count"] and rt["equal"]:
                    stats["big_decoded_equal"] += 1
                else:
                    ctx.violation("dec-big-%s-%s" % (b["form"], "value" if rt["st"] == "ok" else rt["st"]),
                                  "Unmarshal of the %d-byte encoding of %s gives %s" % (r["total"], big_show(b), "%d element(s), %s the input" % (
                                      rt["count"], "equal to" if rt["equal"] else "different from") if rt["st"] == "ok" else rt["st"] + " " + str(rt.get("err"))),
                                  dict(big=b, result=r))
        else:
            if r["st"] != "ok":
                stats["big_refused"] += 1
                continue
            rt = r["rt"]
            if rt["st"] == "ok" and rt["count"] == b["count"] and rt["equal"]:
                stats["big_rt_equal"] += 1
            else:
                ctx.violation("rt-big-%s-%s" % (b["form"], "value" if rt["st"] == "ok" else rt["st"]),
                              "Unmarshal(Marshal(%s)) gives %s" % (big_show(b), "%d element(s), %s the input" % (
                                  rt["count"], "equal to" if rt["equal"] else "different from") if rt["st"] == "ok" else rt["st"] + " " + str(rt.get("err"))),
                              dict(big=b, result=r))


MODES = (("", ""), ("_dirty", "-prefilled"), ("_reuse", "-reused"))


def judge_decoding(ctx, cases, results, stats, which):
    """which = "spec": Unmarshal of the specification's bytes (C12, converse direction);
       which = "real": Unmarshal of the bytes Marshal really produced (C02 round trip).
    Every decode was run into a fresh destination, into one pre-filled with junk of the same type and
    into a long-lived destination reused by all cases of the same (type, protocol, target kind); the
    harness reports the latter two only when they differ from the fresh result, and they are judged
    against the same expectation ("decodes to an equal value" whatever the destination held before)."""
    phase = "rt" if which == "real" else "dec"
    for c in cases:
        if not c["claimed"]:
            continue
        r = results[c["id"]]
        res = r["res"]
        if which in ("spec", "spec2") and c["conv"] != "ok":
            continue
        if which == "real" and res["st"] not in ("ok", "null"):
            continue
        for i, tg in enumerate(c["targets"]):
            if r["decs"][i].get(which) is None:
                continue
            for fld, suffix in MODES:
                d = r["decs"][i].get(which + fld)
                stats[phase + "_evaluations"] += 1
                if d is None:          # identical to the fresh result, which is judged on its own
                    stats[phase + "_same_as_fresh"] += 1
                    continue
                dest = {"": "", "-prefilled": " (destination pre-filled with other content)",
                        "-reused": " (destination reused from the previous decodes)"}[suffix]
                altbool = which == "spec2" and '"udt"' not in json.dumps(c["T"])     # (true written as another non-zero byte)
                stale = which == "spec2" and suffix != "" and not altbool
                if which == "spec2":
                    suffix += "-truebyte" if altbool else "-shortudt"
                src = "Unmarshal(%s of %s) into %s%s" % ("reference encoding" if which == "spec" else (
                    ("reference encoding %s (true written as another non-zero byte)" if altbool else "short reference encoding %s (trailing null UDT fields absent)") % hexs(c["spec2"]["b"])) if which == "spec2" else "Marshal output " + (
                    "null" if res["st"] == "null" else hexs(res["b"])), show(c), kshape(tg["K"]), dest)
                if d["st"] == "harness":
                    raise vf.Inconclusive("harness could not build target %s: %s" % (kshape(tg["K"]), d.get("err")))
                if d["st"] == "panic":
                    ctx.violation(key_for(c, res, c["spec"], phase, "panic" + suffix, tg["K"], d.get("err")), src + " panicked: %s" % d.get("err"),
                                  dict(case=c, result=r))
                elif d["st"] == "err":
                    if tg["mayerr"]:
                        stats[phase + "_err_allowed"] += 1
                    else:
                        ctx.violation(key_for(c, res, c["spec"], phase, "error" + suffix, tg["K"]), src + " fails: %s" % d.get("err"),
                                      dict(case=c, result=r, target=tg))
                elif not same(c["T"], d["gv"], tg["exp"], tg["K"]):
                    ctx.violation("udt-short-value-stale-destination" if stale else key_for(c, res, c["spec"], phase, "value" + suffix, tg["K"]),
                                  src + " gives %s, expected %s" % (json.dumps(d["gv"])[:200], json.dumps(tg["exp"])[:200]),
                                  dict(case=c, result=r, target=tg))
                else:
                    stats[phase + "_equal"] += 1


# ------------------------------------------------------------------ verdicts, code -> spec

def judge_vectors(ctx, recs, verdicts, stats, prop):
    """prop C12: encoding verdicts, and decode verdicts of vectors whose bytes conform;
       prop C02: every decode (round trip) verdict."""
    byn = {r["n"]: r for r in recs}
    for n, v in sorted(verdicts.items()):
        rec = byn[n]
        case = dict(T=rec["T"], K=rec["K"], gv=rec["gv"], p=rec["p"], dec="")
        if v["enc"] == "unclaimed":
            stats["vec_unclaimed"] += 1
            continue
        stats["vec_claimed"] += 1
        held = "-held" if "later_of" in rec else ""
        if held:
            stats["vec_changed_later"] += 1
        if prop == "C12":
            if v["enc"] == "refused":
                ctx.add_drift("Marshal refuses a documented, encodable random value (%s %s)" % (show(case), json.dumps(rec["gv"])[:200]))
            elif v["enc"] != "ok":
                what = {"enc-bytes": "bytes", "enc-accepted": "accepted", "enc-panic": "panic"}[v["enc"]]
                ctx.violation(key_for(case, rec["res"], v["spec"], "enc", what + held),
                              ("random vector, bytes read again after later values were marshalled: " if held else "random vector: ") +
                              "Marshal(%s %s) = %s, specification: %s" % (
                                  show(case), json.dumps(rec["gv"])[:160], rec["res"]["st"] + " " + hexs(rec["res"]["b"]),
                                  v["spec"]["st"] + " " + hexs(v["spec"]["b"])), dict(vector=rec, verdict=v))
        for i, dv in enumerate(v["decs"]):
            if dv == "noclaim":
                continue
            stats["vec_decodes"] += 1
            if dv == "ok":
                continue
            if prop == "C12" and not v["conforms"]:
                continue   # the bytes themselves are already reported; C02 reports the round trip
            d = rec["decs"][i]
            phase = "dec" if prop == "C12" else "rt"
            suffix = {"dirty": "-prefilled", "reuse": "-reused"}.get(d.get("mode"), "")
            ctx.violation(key_for(case, rec["res"], v["spec"], phase, dv.split("-")[1] + suffix, d["K"], d.get("err")),
                          "random vector: Unmarshal(Marshal(%s %s) = %s) into %s gives %s, expected %s" % (
                              show(case), json.dumps(rec["gv"])[:160], hexs(rec["res"]["b"]), kshape(d["K"]) + (
                                  " (destination %s)" % d["mode"] if d.get("mode", "fresh") != "fresh" else ""),
                              d["st"] + " " + (d.get("err", "")[:200] if d["st"] != "ok" else json.dumps(d.get("gv"))[:160]),
                              json.dumps(v["exps"][i] if i < len(v["exps"]) else None)[:160]),
                          dict(vector=rec, verdict=v))


def nontrivial(cases, results):
    """Distinct, non-trivial cases: documented pair, and either a non-empty encoding was compared byte
    for byte or the specification demanded a refusal."""
    seen = set()
    for c in cases:
        if not c["claimed"]:
            continue
        if c["conv"] == "ok" and not any(a["st"] == "ok" and a["b"] for a in c["alts"]):
            continue
        seen.add(json.dumps([c["T"], c["p"], c["K"], c["gv"]], sort_keys=True))
    return len(seen)


def sample_of(c, r):
    return dict(type=tshape(c["T"]), proto=c["p"], go=kshape(c["K"]), value=c["dec"] or c["gv"],
                spec_encoding="refuse" if c["conv"] == "err" else ("null" if c["spec"]["st"] == "null" else hexs(c["spec"]["b"])),
                marshal=r["res"]["st"] + (" " + hexs(r["res"]["b"]) if r["res"]["st"] == "ok" else ""),
                decode_targets=[kshape(t["K"]) for t in c["targets"]][:8])


class Stats(dict):
    def __missing__(self, k):
        return 0


def collect(ctx):
    """Everything both properties need: cases + expectations from TLC, real results, random vectors."""
    quick = ctx.tier == "quick"
    binary = vf.build_gotest(ctx, ".", harness_dirs())
    cases, bigs = gen_cases(ctx)
    results, laters, bigres, summ = replay(ctx, binary, cases, bigs)
    recs, verdicts = random_vectors(ctx, binary, 3000 if quick else 40000)
    ctx.extra = dict(bigs=bigs, bigres=bigres, laters=laters, summ=summ)
    return cases, results, recs, verdicts


def run(ctx):
    ctx.level = "exploration"
    if getattr(ctx, "replay", None):
        return replay_run(ctx, "C12")
    cases, results, recs, verdicts = collect(ctx)
    st = Stats()
    judge_encoding(ctx, cases, results, st)
    judge_decoding(ctx, cases, results, st, "spec")
    judge_decoding(ctx, cases, results, st, "spec2")
    judge_vectors(ctx, recs, verdicts, st, "C12")
    judge_later(ctx, cases, results, ctx.extra["laters"], st)
    judge_concurrent_decodes(ctx, cases, results, st, ("spec",))
    judge_big(ctx, st, "C12")
    ctx.log("stats: %s" % dict(st))
    picks = [c for c in cases if c["fam"] in ("int", "date", "duration", "nested3", "decimal")]
    step = max(1, len(picks) // 5)
    ctx.cov = dict(
        evaluations=len(cases) + st["dec_evaluations"] + len(verdicts) + st["vec_decodes"] + len(ctx.extra["laters"]) + st["big_cases"],
        distinct_nontrivial=nontrivial(cases, results),
        rule="cases = (CQL type, protocol, Go kind, value) enumerated by Gen_Cql.tla from boundary alphabets (every integer width's "
             "min/max/+-1, sign-extension edges, 2^63, 2^64-1, big varints/decimals, NaN payloads/-0, instants around midnight before "
             "and after 1970, vint length boundaries, null/empty/zero, nesting <= 2, both collection framings); a case counts as "
             "non-trivial when its (type, kind) pair is in the documented table and either a non-empty reference encoding was "
             "compared byte for byte with Marshal's output or the specification demanded a refusal; distinct by (type, protocol, kind, value). "
             "Random vectors and decode evaluations are counted in evaluations only.",
        cases=len(cases), cases_unclaimed=st["unclaimed"], encodings_equal=st["enc_equal"], refusals_expected_and_seen=st["enc_refused_ok"],
        decodes_of_reference_encodings=st["dec_evaluations"], decodes_equal=st["dec_equal"], decode_errors_allowed=st["dec_err_allowed"],
        decodes_into_prefilled_or_reused_destination_identical_to_fresh=st["dec_same_as_fresh"],
        marshal_outputs_held_and_reread=ctx.extra["summ"].get("held", 0), outputs_changed_later=ctx.extra["summ"].get("changed_later", 0),
        statement_bind_values=st["later_statement"], concurrent_marshals=st["later_concurrent_first"],
        concurrent_decodes=ctx.extra["summ"].get("concurrent_decodes", 0), concurrent_decodes_differing=ctx.extra["summ"].get("concurrent_decodes_differing", 0),
        size_limit_cases=st["big_cases"], size_limit_refusals_expected_and_seen=st["big_refused_ok"], size_limit_encodings_equal=st["big_equal"], size_limit_decodes_equal=st["big_decoded_equal"],
        random_vectors=len(verdicts), random_vectors_claimed=st["vec_claimed"], random_vector_decodes=st["vec_decodes"],
        samples=[sample_of(c, results[c["id"]]) for c in picks[::step][:6]],
    )
    ctx.assumptions += [
        "the harness maps abstract values to Go values with the standard library only (big.Int.SetBytes, math.Float*frombits, "
        "time.UnixMilli, net.IP, reflect) and back; that mapping is trusted (cross-checked against TLC's decimal rendering for integers)",
        "int / uint are 64-bit (the platform the check runs on)",
        "bounded enumeration plus seeded random vectors: not a proof over all values",
        "null elements inside protocol <= 2 collections, nil slices inside tuples and values the documentation does not list are outside the claim",
    ]
