"""C16 - the driver's picture of the cluster follows what the cluster reports.

spec/Cluster.tla      model of truth / property state / driver + the property operator Viol
spec/MC_Cluster.tla   exhaustive model pass (3 ids x 3 addresses, bounded depth)
spec/Gen_Cluster.tla  histories with the model's expected quiescent states: enumerated (all mixed
                      histories of length 2, all refresh histories of length 3, first step canonical)
                      and sampled (-simulate: invalid rows, repeated ids, filter, bursts)
harness/cluster       executes the histories on a real Session over the scripted cluster and
                      records the projected ring / pool / policy state after every step
spec/Trace_Cluster.tla TLC evaluates the property on every recorded state (violation) and
                      compares every recorded transition with the model's (drift)
"""
import json, os, re, random, collections, concurrent.futures as cf
import vf

WORKERS = int(os.environ.get("VERIF_TLC_WORKERS", "0")) or None   # None: all cores


# ------------------------------------------------------------------ TLC helpers

def _tla_set(xs):
    return "{" + ", ".join('"%s"' % x for x in xs) + "}"


def _write_cfg(ctx, name, consts, tail):
    d = vf._scratch_spec_dir(ctx, "w")
    lines = ["SPECIFICATION Spec", "CONSTANTS"] + ["  %s = %s" % kv for kv in consts.items()] + tail
    open(os.path.join(d, name), "w").write("\n".join(lines) + "\n")
    return name


def _consts(nids=3, naddrs=3, filt=(), defect=True, maxlen=2, bad=False, dup=False, depth=2, sim=False, mixed=True,
            burst=0, ordered=True, split=False, c0peer="a0", late=False, schema=False, overlap=False, control=False, retry=False):
    b = lambda x: "TRUE" if x else "FALSE"
    return collections.OrderedDict(
        Ids=_tla_set("i%d" % k for k in range(1, nids + 1)), Addrs=_tla_set("a%d" % k for k in range(1, naddrs + 1)),
        Filt=_tla_set(filt), DefectByAddr=b(defect), C0peer='"%s"' % c0peer, MaxLen=maxlen,
        WithBad=b(bad), WithDup=b(dup), WithSplit=b(split), LateEvents=b(late), SchemaPlan=b(schema), Overlap=b(overlap), ControlPlan=b(control), RetryPlan=b(retry), GenDepth=depth,
        Sim=b(sim), Mixed=b(mixed), Burst=burst, Ordered=b(ordered))


def _gen(ctx, cfgname, consts, simulate=None, depth=None, timeout=600, workers=1, seed=None):
    """Run Gen_Cluster; returns the printed histories (steps with the model's expected states)."""
    _write_cfg(ctx, cfgname, consts, ["INVARIANT Emit", "CHECK_DEADLOCK FALSE"])
    extra = ["-seed", str(seed)] if seed is not None else None
    r = vf.run_tlc(ctx, "Gen_Cluster", cfgname, workers=workers, timeout=timeout, simulate=simulate, depth=depth,
                   deadlock=False, name="gen_" + cfgname.replace(".cfg", ""), extra=extra, heap="4g")
    if not r.ok:
        raise vf.Inconclusive("history generation %s failed: %s\n%s" % (cfgname, r.error or r.violated, r.out[-1500:]))
    hs = vf.tlc_printed(r.out, "HIST")
    if not hs:
        raise vf.Inconclusive("history generation %s produced nothing" % cfgname)
    return hs, r


def _thin(hists, per_prefix, rnd):
    """-simulate prints one history per candidate last step of a walk: keep a few per walk."""
    groups = collections.OrderedDict()
    for h in hists:
        key = json.dumps([dict(s, exp=None) for s in h["steps"][:-1]], sort_keys=True)
        groups.setdefault(key, []).append(h)
    out = []
    for g in groups.values():
        rnd.shuffle(g)
        out += g[:per_prefix]
    return out


POLICIES = ("rr", "ta-rr", "ta-dc")    # round robin; token aware over round robin / DC aware (session keyspace "ks")


def _scenarios(hists, first, mode="direct", nids=3, naddrs=3, filt=(), src="", c0peer="a0", policies=("rr",)):
    """policies: the host selection policies the histories are run with, in rotation."""
    return [dict(n=first + k, mode=mode, nids=nids, naddrs=naddrs, filt=list(filt), c0peer=c0peer, policy=policies[k % len(policies)],
                 init=[], exp0=h["exp0"], steps=h["steps"], src=src) for k, h in enumerate(hists)]


# ------------------------------------------------------------------ real code

def _replay(ctx, binary, scs, name, par=32, timeout=900):
    sp = os.path.join(ctx.tmp, "sc_%s.ndjson" % name)
    tp = os.path.join(ctx.tmp, "tr_%s.ndjson" % name)
    vf.write_ndjson(sp, scs)
    rc, out = vf.run_gotest(ctx, binary, "^TestVfC16Replay$", env={"VF_SCENARIOS": sp, "VF_TRACES": tp, "VF_PAR": par},
                            timeout=timeout, check=False)
    m = re.search(r"^VFSUMMARY (.*)$", out, re.M)
    return rc, out, (json.loads(m.group(1)) if m else None), tp


def _sig(sc):
    def rows(rs):
        return ",".join("%s@%s%s%s" % (r["id"], r["addr"], "/" + r["peer"] if r.get("peer", r["addr"]) != r["addr"] else "",
                                       "" if r["inv"] == "ok" else ":" + r["inv"]) for r in rs)
    return " ; ".join("%s[%s]%s%s%s" % (s["op"], rows(s["rows"]), "" if s["fail"] == "none" else " fail=" + s["fail"],
                                         " " + ",".join(e["kind"] + ":" + e["addr"] for e in s["evs"][:6]) +
                                         ("..(%d)" % len(s["evs"]) if len(s["evs"]) > 6 else "") if s["evs"] else "",
                                         " " + s["addr"] if s["addr"] else "") for s in sc["steps"])


def _state(r):
    return "hosts=%s byaddr=%s pool=%s policy=%s served=%s refreshes=%d%s" % (
        ["%s@%s%s%s" % (h["id"], h["addr"], "/" + h["n2n"] if h["n2n"] != h["addr"] else "", "" if h["up"] else "(down)") for h in r["hosts"]],
        ["%s>%s" % (h["addr"], h["id"]) for h in r["byaddr"]], [h["id"] for h in r["pool"]],
        ["%s@%s" % (h["id"], h["addr"]) for h in r["pol"]], r["served"], r["refreshes"],
        " err=" + r["err"] if r["err"] else "")


def _probe(ctx, binary):
    """Which variant of the driver model predicts this tree: does removing a host delete an
    address entry that names another host?  (Only selects the prediction used for waiting and
    for the drift comparison; the property operator does not depend on it.)"""
    row = lambda i, a: dict(id=i, addr=a, peer=a, inv="ok")
    sc = dict(n=0, mode="direct", nids=3, naddrs=3, filt=[], c0peer="a0", init=[row("i1", "a1")],
              steps=[dict(op="refresh", rows=[row("i2", "a1")], fail="none", evs=[], addr="")], src="probe")
    rc, out, summ, tp = _replay(ctx, binary, [sc], "probe", par=1, timeout=120)
    if not summ or summ["Errors"]:
        if "panic:" in out:
            return None, out
        raise vf.Inconclusive("probe scenario did not run:\n" + out[-2000:])
    last = [r for r in vf.read_ndjson(tp) if r["op"] == "refresh"][-1]
    has = any(h["id"] == "i2" and h["addr"] == "a1" for h in last["hosts"])
    lost = has and not any(b["addr"] == "a1" for b in last["byaddr"])
    return lost, out


def _validate(ctx, recs, defect, shards):
    """TLC evaluates the property on every recorded state; returns (viol, drift, skipped, lines)."""
    by = collections.OrderedDict()
    for r in recs:
        by.setdefault(r["sc"], []).append(r)
    # an execution during which the machine stalled (an answer timed out, the session was still
    # busy at the hard limit of a wait) is not evidence: not judged
    stalled = [k for k, v in by.items() if any(r["op"] == "stalled" or r["err"] in ("timeout", "hang") for r in v)]
    for k in stalled:
        del by[k]
    ctx.cov_stalled = getattr(ctx, "cov_stalled", 0) + len(stalled)
    if len(stalled) * 20 > len(by) + len(stalled):
        raise vf.Inconclusive("%d of %d executions stalled (timeouts): the machine is too loaded for a verdict" % (
            len(stalled), len(by) + len(stalled)))
    for v in by.values():
        v.sort(key=lambda r: r["k"])
    # one TLC run per shard; the control node's node-to-node address is a constant of the run
    groups = collections.OrderedDict()
    for k, v in by.items():
        groups.setdefault(v[0].get("c0peer") or "a0", []).append(k)
    parts = []
    for c0, keys in groups.items():
        n = max(1, min(shards, len(keys) // 200 + 1))
        parts += [(c0, keys[i::n]) for i in range(n)]

    def one(i):
        c0, keys = parts[i]
        if not keys:
            return None
        cfg = _write_cfg(ctx, "trace_%d.cfg" % i, collections.OrderedDict(
            Ids=_tla_set("i%d" % k for k in range(1, 5)), Addrs=_tla_set("a%d" % k for k in range(1, 5)), Filt="{}",
            DefectByAddr="TRUE" if defect else "FALSE", C0peer='"%s"' % c0), ["INVARIANT Report", "CHECK_DEADLOCK FALSE"])
        p = os.path.join(ctx.tmp, "val_%d.ndjson" % i)
        rs = [r for k in keys for r in by[k]]
        vf.write_ndjson(p, rs)
        r = vf.run_tlc(ctx, "Trace_Cluster", cfg, workers=1, heap="2g", timeout=1200, env={"VF_TRACE": p},
                       deadlock=False, name="val_%d" % i, quiet=True)
        return r, len(rs)

    viol, drift, skipped, lines = [], [], 0, 0
    with cf.ThreadPoolExecutor(shards) as ex:
        for res in ex.map(one, range(len(parts))):
            if res is None:
                continue
            r, n = res
            done = re.search(r'<<"MONDONE", (\d+)>>', r.out)
            if not r.ok or not done or int(done.group(1)) != n:
                raise vf.Inconclusive("Trace_Cluster did not process its %d lines: %s\n%s" % (n, r.error or r.violated, r.out[-2000:]))
            viol += vf.tlc_printed(r.out, "MONVIOL")
            drift += vf.tlc_printed(r.out, "MONDRIFT")
            skipped += len(vf.tlc_printed(r.out, "MONSKIP"))
            lines += n
    return viol, drift, skipped, lines, by


# ------------------------------------------------------------------ the check

def run(ctx):
    quick = ctx.tier == "quick"
    ctx.level = "model_checking"
    rnd = random.Random(ctx.seed)
    binary = vf.build_gotest(ctx, ".", ["common", "cluster"])

    # ---- replay of a stored violation
    if getattr(ctx, "replay", None):
        rp = json.load(open(ctx.replay))
        scs = []
        for v in rp.get("violations", []):
            sc = (v.get("detail") or {}).get("scenario")
            if sc and sc not in scs:
                scs.append(sc)
        if not scs:
            raise vf.Inconclusive("replay file holds no scenario")
        defect, _ = _probe(ctx, binary)
        rc, out, summ, tp = _replay(ctx, binary, scs, "replay", par=16)
        if not summ:
            raise vf.Inconclusive("replay did not run:\n" + out[-2000:])
        viol, drift, skipped, lines, by = _validate(ctx, vf.read_ndjson(tp), bool(defect), 1)
        _report(ctx, viol, drift, {s["n"]: s for s in scs}, by)
        ctx.cov = dict(states=0, transitions=0, traces_validated_against_impl=len(scs), samples=[_sig(scs[0])])
        return

    # ---- 0. which driver-model variant predicts this tree
    defect, pout = _probe(ctx, binary)
    if defect is None:
        ctx.violation("panic", "the driver panicked in the probe history (replace a host id at the same address)", pout[-3000:])
        ctx.cov = dict(states=0, transitions=0, traces_validated_against_impl=0, samples=[])
        return
    ctx.log("probe: removing a host %s the address entry of its successor (driver model DefectByAddr=%s)" % (
        "DELETES" if defect else "keeps", defect))

    # ---- 1. model pass: the repaired design satisfies the property; the modelled defect does not
    runs = []
    if os.environ.get("VERIF_C16_SKIP_MODEL"):      # development aid only (mutant loops)
        ctx.notes.append("model pass skipped (VERIF_C16_SKIP_MODEL)")
        return _after_model(ctx, quick, rnd, binary, defect, runs)
    mc = vf.tlc_must_pass(ctx, "MC_Cluster", "MC_Cluster_quick.cfg", timeout=900, workers=WORKERS, heap="6g")
    runs.append(dict(cfg="MC_Cluster_quick", distinct=mc.distinct, generated=mc.generated, depth=mc.depth))
    for cfg in (("MC_Cluster_filter", "MC_Cluster_split") if quick else ("MC_Cluster_dup", "MC_Cluster_filter", "MC_Cluster_split")):
        mf = vf.tlc_must_pass(ctx, "MC_Cluster", cfg + ".cfg", timeout=900, workers=WORKERS, heap="6g")
        runs.append(dict(cfg=cfg, distinct=mf.distinct, generated=mf.generated, depth=mf.depth))
    md = vf.run_tlc(ctx, "MC_Cluster", "MC_Cluster_defect.cfg", timeout=600, workers=WORKERS, heap="4g")
    if md.violated != "PropertyHolds":
        raise vf.Inconclusive("the model with DefectByAddr=TRUE does not exhibit the by-address loss: %s %s" % (md.violated, md.error))
    runs.append(dict(cfg="MC_Cluster_defect", distinct=md.distinct, generated=md.generated, depth=md.depth,
                     expected_violation="PropertyHolds"))
    if not quick:
        for cfg in ("MC_Cluster_bad", "MC_Cluster_thorough"):
            mt = vf.tlc_must_pass(ctx, "MC_Cluster", cfg + ".cfg", timeout=1500, workers=WORKERS, heap="14g")
            runs.append(dict(cfg=cfg, distinct=mt.distinct, generated=mt.generated, depth=mt.depth))
    return _after_model(ctx, quick, rnd, binary, defect, runs)


def _after_model(ctx, quick, rnd, binary, defect, runs):
    states = sum(r["distinct"] for r in runs)
    trans = sum(r["generated"] for r in runs)

    # ---- 2. histories from TLC (the generator runs are independent: run them side by side)
    scs = []
    gen_stats = {}
    ntr = 45 if quick else 500
    dep = 6 if quick else 8
    jobs = [
        ("all-mixed-2", dict(), lambda: _gen(ctx, "gen_all2.cfg", _consts(defect=defect, depth=2, mixed=True), workers=2)[0]),
        ("all-refresh-3", dict(), lambda: _gen(ctx, "gen_ref3.cfg", _consts(defect=defect, depth=3, mixed=False), workers=2)[0]),
    ]
    # multi-homed nodes (rpc_address # peer / broadcast_address, also for the control node): refresh,
    # refresh, then one status event for ANY address - those of nodes that just vanished or moved included
    jobs.append(("split-late-3", dict(c0peer="b0"), lambda: _gen(
        ctx, "gen_split3.cfg", _consts(defect=defect, depth=3, mixed=False, maxlen=1 if quick else 2, split=True, late=True, c0peer="b0"),
        workers=2)[0]))
    # token aware policy with a session keyspace: refresh; the keyspace metadata becomes unavailable /
    # empty / stays readable while a schema event drops the cached copy; then any step
    jobs.append(("schema-3", dict(policies=("ta-rr", "ta-dc"), twice=True), lambda: _gen(
        ctx, "gen_schema3.cfg", _consts(defect=defect, depth=3, mixed=True, maxlen=2, schema=True), workers=2)[0]))
    # control node lost, answers again, a refresh before the session has reconnected (has to return), reconnection
    jobs.append(("control-5", dict(), lambda: _gen(
        ctx, "gen_control5.cfg", _consts(defect=defect, depth=5, maxlen=2, control=True), workers=2)[0]))
    # a node that does not answer is reported DOWN, then UP (retried in vain), then the cluster changes
    jobs.append(("retry-5", dict(c0peer="a0"), lambda: _gen(
        ctx, "gen_retry5.cfg", _consts(defect=defect, depth=5, maxlen=2, split=True, retry=True), workers=2)[0]))
    if not quick:
        jobs.append(("split-mixed-2", dict(c0peer="b0"), lambda: _gen(
            ctx, "gen_split2.cfg", _consts(defect=defect, depth=2, mixed=True, maxlen=1, split=True, c0peer="b0"), workers=2)[0]))
    if not quick:
        jobs.append(("all-refresh-2-len3-dup", dict(),
                     lambda: _gen(ctx, "gen_ref3m.cfg", _consts(defect=defect, depth=2, mixed=False, maxlen=3, dup=True), workers=2)[0]))
    for filt in ((), ("a3",), ("a1", "a2")):
        c0 = "b0" if len(filt) != 1 else "a0"
        jobs.append(("sim-filter%d" % len(filt), dict(filt=filt, c0peer=c0, policies=POLICIES), (lambda filt=filt, c0=c0: _thin(_gen(
            ctx, "gen_sim%d.cfg" % len(filt), _consts(defect=defect, depth=dep, sim=True, bad=True, dup=True, maxlen=3, filt=filt, burst=24,
                                                       split=True, c0peer=c0, schema=True, control=True),
            simulate="num=%d" % (ntr if len(filt) < 2 else ntr // 3), depth=dep + 1, seed=ctx.seed * 7 + len(filt), timeout=900)[0], 2, rnd))))
    if not quick:
        jobs.append(("sim-4x4", dict(nids=4, naddrs=4, c0peer="b0", policies=POLICIES), lambda: _thin(_gen(
            ctx, "gen_sim44.cfg", _consts(nids=4, naddrs=4, defect=defect, depth=7, sim=True, bad=True, dup=True, maxlen=2, split=True, c0peer="b0", schema=True, control=True),
            simulate="num=300", depth=8, seed=ctx.seed * 7 + 5, timeout=1200)[0], 2, rnd)))
    with cf.ThreadPoolExecutor(4) as ex:
        results = list(ex.map(lambda j: j[2](), jobs))
    for (src, kw, _), hs in zip(jobs, results):
        kw = dict(kw)
        if quick and src == "all-refresh-3":
            rnd.shuffle(hs)
            hs, src = hs[:300], "refresh-3-sample"
        if not quick and src == "split-late-3" and len(hs) > 8000:
            rnd.shuffle(hs)
            hs = hs[:8000]
        if src in ("all-refresh-3", "refresh-3-sample"):
            kw["policies"] = POLICIES
        if kw.pop("twice", False):      # every history with each of the policies
            pols = kw.pop("policies")
            for pol in pols[1:]:
                scs.extend(_scenarios(hs, len(scs), src=src, policies=(pol,), **kw))
            kw["policies"] = pols[:1]
        if src == "all-mixed-2":
            h2 = hs
        scs.extend(_scenarios(hs, len(scs), src=src, **kw))
        gen_stats[src] = len(hs)
    direct = list(scs)
    # end to end: EVENT frames on the control connection, real debouncers, heartbeat reconnection
    nw = 24 if quick else 160
    hs, _ = _gen(ctx, "gen_wire.cfg", _consts(defect=defect, depth=3 if quick else 4, sim=True, bad=False, dup=False, maxlen=3, burst=40, ordered=False, split=True, schema=True, control=True),
                 simulate="num=%d" % nw, depth=5, seed=ctx.seed * 7 + 3, timeout=600)
    wire = _scenarios(_thin(hs, 1, rnd)[:nw], len(scs), mode="wire", src="wire", policies=POLICIES)
    scs += wire
    gen_stats["wire"] = len(wire)
    # steps placed INSIDE another one (wire mode, the driver's own debouncers): after a set-up refresh, a
    # second event while the handler of the first batch is parked before it reads its frames, and a
    # topology event / an immediate-refresh request, after another change of the cluster, while a
    # refresh is held between reading the peer rows and applying them
    ho, _ = _gen(ctx, "gen_overlap.cfg", _consts(defect=defect, depth=3, maxlen=1, overlap=True), workers=2)
    if quick:
        # a seeded sample, stratified: every held step (which event; refresh or topology event) and
        # every kind of step arriving meanwhile occurs
        ho.sort(key=lambda h: json.dumps(h["steps"], sort_keys=True))
        groups = collections.OrderedDict()
        for h in ho:
            o, i = h["steps"][1], h["steps"][2]
            key = (i["ov"], o["op"], json.dumps(o["evs"], sort_keys=True) if i["ov"] == "handler" else "", i["op"], i["evs"][0]["kind"] if i["evs"] else "")
            groups.setdefault(key, []).append(h)
        ho = []
        for key, g in groups.items():
            rnd.shuffle(g)
            ho += g[:2 if key[0] == "handler" else 7]
    over = _scenarios(ho, len(scs), mode="wire", src="overlap")
    wire += over
    scs += over
    gen_stats["overlap"] = len(over)
    ctx.log("histories: %s" % gen_stats)
    byn = {s["n"]: s for s in scs}

    # ---- 3. the real Session
    recs = []
    total = dict(Scenarios=0, Steps=0, Errors=0, Timeouts=0)
    for name, part, par in (("direct", direct, 48), ("wire", wire, 48)):
        rc, out, summ, tp = _replay(ctx, binary, part, name, par=par, timeout=1500 if quick else 3000)
        if not summ:
            if "panic:" in out or "fatal error:" in out:
                m = re.search(r"(panic:|fatal error:)[^\n]*", out)
                top = re.findall(r"^(?:github\.com/gocql/gocql|gocql)\.([^\n(]*)\(", out, re.M)
                top = [t for t in top if "vfC16" not in t and not t.startswith("vf")]
                ctx.violation("panic", "the process died while executing %s histories: %s (in %s)" % (
                    name, m.group(0) if m else "?", top[0] if top else "?"), out[-6000:])
                continue
            raise vf.Inconclusive("replay driver (%s) gave no summary (rc=%s):\n%s" % (name, rc, out[-3000:]))
        if summ["Errors"]:
            if summ["Errors"] * 2 > summ["Scenarios"]:
                raise vf.Inconclusive("sessions could not be created for %d of %d scenarios: %s" % (
                    summ["Errors"], summ["Scenarios"], summ["FirstErr"]))
            ctx.notes.append("%d scenario(s) could not start: %s" % (summ["Errors"], summ["FirstErr"]))
        ctx.log("replay %s: %s" % (name, summ))
        for k in total:
            total[k] += summ[k]
        recs += vf.read_ndjson(tp)
    if not recs:
        if ctx.violations:
            ctx.cov = dict(states=states, transitions=trans, traces_validated_against_impl=0, samples=[])
            return
        raise vf.Inconclusive("no execution was recorded")

    # ---- 4. TLC on the recorded executions
    viol, drift, skipped, lines, by = _validate(ctx, recs, defect, 8 if quick else 12)
    ctx.log("TLC evaluated %d recorded states of %d executions: %d violating, %d drifting, %d not judged (after a violation)" % (
        lines, len(by), len(viol), len(drift), skipped))
    kinds = _report(ctx, viol, drift, byn, by)

    sample = scs[len(h2) // 2]
    ctx.cov = dict(
        states=states, transitions=trans, traces_validated_against_impl=len(by), exhaustive=True,
        model_configs=runs, histories=gen_stats, steps_executed=total["Steps"], recorded_states=lines,
        states_not_judged_after_violation=skipped, executions_ending_off_model=total["Timeouts"],
        executions_dropped_for_stalls=getattr(ctx, "cov_stalled", 0),
        driver_model_variant="DefectByAddr=%s (chosen by the probe history)" % defect,
        violation_classes={k: v for k, v in kinds.items()},
        samples=[dict(kind="history", steps=_sig(sample),
                      recorded=[_state(r) for r in by.get(sample["n"], [])][:4])],
    )
    ctx.assumptions += [
        "steps are compared at quiescence (pools filled or given up); interleavings inside one refresh are not enumerated",
        "peer rows have distinct addresses (system.peers is keyed by the peer address); a host id may be reported twice; "
        "a node's node-to-node address is its connect address aK or a private address bK of its own",
        "the control connection stays on / returns to the dedicated control node (the other nodes refuse system.local)",
        "offered hosts = the query plans (Pick) of an unrouted query and of one query routed into every host's token range; "
        "policies: round robin, token aware over round robin and over DC aware (one DC, SimpleStrategy RF 2); direct-mode histories bypass the two 1 s debounce timers (the wire-mode ones do not)",
        "bounded: 3 ids x 3 addresses (4 x 4 sampled in the thorough tier), depth as in model_configs",
    ]


def _report(ctx, viol, drift, byn, by):
    kinds = collections.Counter()
    per_kind = collections.Counter()
    for v in sorted(viol, key=lambda x: (x["sc"], x["k"])):
        sc = byn.get(v["sc"])
        for kind in sorted(v["kinds"]):
            if kind == "policy-stale-host" and sc and any(r["k"] == v["k"] and r.get("ov") == "peers" for r in by.get(v["sc"], [])):
                # two refreshes back to back (the second requested while the first was in flight): a host the
                # first one connected to and the second one removed is offered again
                kind = "policy-stale-host-connected-after-removal"
            kinds[kind] += 1
            if per_kind[kind] >= 8:
                continue
            per_kind[kind] += 1
            lines = by.get(v["sc"], [])
            at = [r for r in lines if r["k"] == v["k"]]
            ctx.violation(kind, "%s after history {%s} (step %d, %s mode): %s" % (
                kind, _sig(sc) if sc else "?", v["k"], sc["mode"] if sc else "?", _state(at[0]) if at else ""),
                dict(scenario=sc, recorded=[r for r in lines if r["k"] <= v["k"]]))
    dk = collections.Counter()
    for x in drift:
        sc = byn.get(x["sc"])
        dk[x["op"]] += 1
        if sum(dk.values()) <= 5:
            at = [r for r in by.get(x["sc"], []) if r["k"] == x["k"]]
            ctx.add_drift("step %d (%s) of history {%s}: the model expects %s, the session shows %s" % (
                x["k"], x["op"], _sig(sc) if sc else "?", json.dumps(x["expected"], sort_keys=True), _state(at[0]) if at else "?"))
    if sum(dk.values()) > 5:
        ctx.add_drift("... %d drifting steps in total: %s" % (sum(dk.values()), dict(dk)))
    return kinds
