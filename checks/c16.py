"""C16 - the driver's picture of the cluster follows what the cluster reports.

Cluster.tla (model + property operator Viol), MC_Cluster (exhaustive model pass), Gen_Cluster
(histories with the model's expected states: enumerated and -simulate), replay against a real
Session over the scripted cluster (harness/cluster), Trace_Cluster (TLC evaluates the property
on every recorded state and compares each recorded transition with the model's)."""
import json, os, re, collections, concurrent.futures as cf
import vf

DEV_WORKERS = int(os.environ.get("VERIF_TLC_WORKERS", "0")) or None


def _gen(ctx, cfgname, consts, simulate=None, depth=None, timeout=600, workers=1, seed=None):
    """Run Gen_Cluster with a generated cfg; returns the printed histories."""
    d = vf._scratch_spec_dir(ctx, "w")
    lines = ["SPECIFICATION Spec", "CONSTANTS"]
    for k, v in consts.items():
        lines.append("  %s = %s" % (k, v))
    lines += ["INVARIANT Emit", "CHECK_DEADLOCK FALSE"]
    open(os.path.join(d, cfgname), "w").write("\n".join(lines) + "\n")
    extra = ["-seed", str(seed)] if seed is not None else None
    r = vf.run_tlc(ctx, "Gen_Cluster", cfgname, workers=workers, timeout=timeout, simulate=simulate, depth=depth,
                   deadlock=False, name="gen_" + cfgname.replace(".cfg", ""), extra=extra, heap="4g")
    if not r.ok:
        raise vf.Inconclusive("history generation %s failed: %s\n%s" % (cfgname, r.error or r.violated, r.out[-1500:]))
    hs = vf.tlc_printed(r.out, "HIST")
    if not hs:
        raise vf.Inconclusive("history generation %s produced nothing" % cfgname)
    return hs, r


def _tla_set(xs):
    return "{" + ", ".join('"%s"' % x for x in xs) + "}"


def _consts(nids=3, naddrs=3, filt=(), defect=True, maxlen=2, bad=False, dup=False, depth=2, sim=False, mixed=True):
    return collections.OrderedDict(
        Ids=_tla_set("i%d" % k for k in range(1, nids + 1)), Addrs=_tla_set("a%d" % k for k in range(1, naddrs + 1)),
        Filt=_tla_set(filt), DefectByAddr="TRUE" if defect else "FALSE", MaxLen=maxlen,
        WithBad="TRUE" if bad else "FALSE", WithDup="TRUE" if dup else "FALSE", GenDepth=depth,
        Sim="TRUE" if sim else "FALSE", Mixed="TRUE" if mixed else "FALSE")


def _scenarios(hists, first, mode="direct", nids=3, naddrs=3, filt=()):
    out = []
    for k, h in enumerate(hists):
        out.append(dict(n=first + k, mode=mode, nids=nids, naddrs=naddrs, filt=list(filt), init=[], exp0=h["exp0"],
                        steps=h["steps"]))
    return out


def _replay(ctx, binary, scs, name, par=16, timeout=900):
    sp = os.path.join(ctx.tmp, "sc_%s.ndjson" % name)
    tp = os.path.join(ctx.tmp, "tr_%s.ndjson" % name)
    vf.write_ndjson(sp, scs)
    rc, out = vf.run_gotest(ctx, binary, "^TestVfC16Replay$", env={"VF_SCENARIOS": sp, "VF_TRACES": tp, "VF_PAR": par},
                            timeout=timeout, check=False)
    m = re.search(r"^VFSUMMARY (.*)$", out, re.M)
    return rc, out, (json.loads(m.group(1)) if m else None), tp


def run(ctx):
    raise vf.Inconclusive("under construction")
