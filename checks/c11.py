"""C11 - host selection offers each live node once, nearest and replicas first.

spec -> code: Gen_Policies.tla enumerates bounded cluster layouts x policy/option combinations x
keyspaces x notification histories (one TLC state per case), with the sequences the reference
generator of Policies.tla predicts for several successive picks of every query class (model pass:
they satisfy every property predicate).  The Go harness replays each case on the REAL policy
objects.  Exact agreement with the prediction is accepted; every other real sequence is judged by
TLC (Trace_Policies.tla) with the property predicates - a different order that satisfies them is
drift, not a violation.
code -> spec: seeded random histories (add/remove/up/down interleaved with picks) on random
clusters, every pick point recorded as a vector and validated by the same TLC specification; a
concurrent safety run (no panic, no nil host, bounded iteration) validated by Trace_PoliciesSafety.
"""
import json, os, re, collections
import vf

DEV_WORKERS = int(os.environ.get("VERIF_TLC_WORKERS", "0")) or None   # None: all cores (the exhaustive generator pass)
VAL_WORKERS = DEV_WORKERS or min(8, vf.NCPU)                             # vector validation passes


def harness_dirs(*ds):
    hs = []
    if [f for f in os.listdir(os.path.join(vf.HARNESS, "common")) if f.endswith(".go")]:
        hs.append("common")
    return hs + list(ds)


# Interleavings of two or three live iterators (1-based iterator numbers; an iterator is created - Pick -
# at its first mention, after the schedule every iterator is drained): a query that is retried on its next
# host while other queries for the same partition are picked.
IL_SCHEDULES = [
    (2, [1, 2, 1]), (2, [1, 1, 2, 1, 2]), (2, [1, 2, 2, 1]), (2, [2, 1, 2, 1, 1]), (2, [1, 1, 1, 2]),
    (3, [1, 2, 3, 1, 2, 3]), (3, [1, 2, 1, 3, 1]), (3, [1, 2, 3, 3, 2, 1]), (3, [1, 1, 2, 3, 1, 2]),
]


def interleaved_for(case, seed, every):
    """The interleaved group (input only: routing tokens and schedule) attached to a case, or []."""
    w, i = case["w"], case["id"]
    if not w["ta"] or (i + seed) % every or w.get("strat2", "none") != "none":
        return []
    toks = [g["q"] for g in case["groups"] if g["q"] >= 0]
    if not toks:
        return []
    k = (i // every + seed)
    n, sched = IL_SCHEDULES[k % len(IL_SCHEDULES)]
    q = toks[(k // len(IL_SCHEDULES)) % len(toks)]
    qs = [q] * n
    if k % 5 == 0:
        qs[-1] = toks[(k // 7) % len(toks)]      # the last query may be for another token ...
    elif k % 11 == 0:
        qs[-1] = -1                              # ... or have no routing key
    return [dict(qs=qs, sched=sched)]


def polcfg(w):
    return w["pol"] + ("-ta" if w["ta"] else "") + ("-shuffle" if w["shuffle"] else "") + ("-nonlocal" if w["nonlocal"] else "")


def keys_of(v, vec):
    """Violation keys (with a short description each) from the verdict TLC printed for one real vector."""
    w = vec["w"]
    cfg = polcfg(w)
    out = []
    if v["pclass"] != "none":
        where = ("call %d of the history (%s)" % (v["pat"], vec["hist"][v["pat"] - 1]["op"])) if v["pat"] else (
            "Pick / NextHost of interleaved iterators" if v.get("pil") else "Pick / NextHost")
        if v["pclass"] == "mapsize" and v["absentdc"]:
            out.append(("inherited-c10-panic", "panic in %s: %s" % (where, vec["pmsg"])))
        elif v["pclass"] == "mapsize":
            out.append((cfg + ":panic-mapsize-unexplained", "panic in %s: %s" % (where, vec["pmsg"])))
        elif v["pclass"] == "pick" and v["emptyring"]:
            out.append((cfg + ":panic-pick-empty-ring", "panic in %s with an empty token ring: %s" % (where, vec["pmsg"])))
        else:
            out.append((cfg + ":panic-" + v["pclass"], "panic in %s: %s" % (where, vec["pmsg"])))
    for g in v.get("ilbad", []):
        j = g["firstbad"]
        desc = "interleaved iterators for routing tokens %s, schedule %s: offered %s%s; stored replica list before %s / after %s, Cassandra %s" % (
            g["qs"], g["sched"], g["seqs"], (" (iterator %d fails)" % j) if j else "", g["rep0"], g["rep1"], g["placement"])
        for k in sorted(g["kinds"]):
            out.append((cfg + ":interleaved-" + k, desc))
        for k in sorted(g["stored"]):
            out.append((cfg + ":stored-replicas-" + k, desc))
    if v.get("xov", 0) > 0:
        out.append((cfg + ":executor-concurrent-nexthost", "queryExecutor with speculative execution: %d call(s) entered the NextHost "
                    "function of one query while another call was inside it; offered %s" % (v["xov"], [g["picks"] for g in vec["groups"]])))
    for g in v.get("midbad", []):
        out.append((cfg + ":midplan-down-host-offered", "routing token %s: after %s had been offered host %s was reported down (state + HostDown); "
                    "the rest of the same plan still offered it: %s" % (g["q"], g["first"], g["victim"], g["rest"])))
    for g in v["bad"]:
        for k in sorted(g.get("stored", [])):
            out.append((cfg + ":stored-replicas-" + k, "routing token %s: the policy's replica map holds %s, Cassandra's placement on the "
                        "ring members (up or down) is %s" % (g["q"], g["realrep"], g["placement"])))
        kinds = set(g["kinds"])
        desc = "routing token %s%s: offered %s; up replicas near=%s far=%s (reference %s); predicted %s" % (
            g["q"], " (statement on the second keyspace %s %s)" % (w.get("strat2"), dict(zip(w.get("rfdc2", []), w.get("rfn2", []))))
            if g.get("ks") == 2 else "", g["got"], g["near"], g["far"], g["reps"], g["predicted"])
        if g["realdup"]:
            # the placement code handed the policy a replica list with a host twice (C10): what fails only
            # because of that is inherited; kinds2 = what still fails relative to that list, de-duplicated
            out.append(("inherited-c10-duplicate", desc + "; the driver's own replica list was %s" % g["realrep"]))
            kinds = set(g["kinds2"])
        if g["emptymid"] and "far-replicas-not-next" in kinds:
            out.append((cfg + ":far-replicas-not-next-empty-middle-tier", desc))
            kinds.discard("far-replicas-not-next")
        for k in sorted(kinds):
            out.append((cfg + ":" + k, desc))
    return out


def validate(ctx, name, vectors, timeout):
    if not vectors:
        return {}, {}, None
    p = os.path.join(ctx.tmp, "pvec_%s.ndjson" % name)
    vf.write_ndjson(p, vectors)
    r = vf.run_tlc(ctx, "Trace_Policies", "Trace_Policies.cfg", workers=VAL_WORKERS, heap="6g", timeout=timeout,
                   env={"VF_TRACE": p}, deadlock=False, name="pvectors_" + name)
    if not r.ok:
        raise vf.Inconclusive("vector validation failed to run (%s): %s\n%s" % (name, r.error or r.violated, r.out[-3000:]))
    if vf.tlc_printed(r.out, "MALFORMED"):
        raise vf.Inconclusive("malformed vectors in %s: %s" % (name, vf.tlc_printed(r.out, "MALFORMED")[:3]))
    if r.distinct != len(vectors) + 64 + 1:
        raise vf.Inconclusive("vector validation evaluated %d states for %d records (%s)" % (r.distinct, len(vectors), name))
    viol = {v["id"]: v for v in vf.tlc_printed(r.out, "VIOL")}
    drift = {v["id"]: v for v in vf.tlc_printed(r.out, "DRIFT")}
    return viol, drift, r


def report(ctx, viol, byid, origin):
    groups = collections.OrderedDict()
    for i, v in viol.items():
        for key, desc in keys_of(v, byid[i]):
            groups.setdefault(key, []).append((i, desc))
    for key, lst in groups.items():
        i, desc = lst[0]
        vec = byid[i]
        w = vec["w"]
        what = "%s: %d vector(s), e.g. %s local=%s/%s hosts dc=%s rack=%s ring=%s %s %s history=%s: %s" % (
            origin, len(lst), polcfg(w), w["localdc"], w["localrack"], w["dc"], w["rack"], w["ring"], w["strat"],
            dict(zip(w["rfdc"], w["rfn"])), [(o["op"], o["h"]) for o in vec["hist"]], desc)
        ctx.violation(key, what, dict(count=len(lst), vector=vec, verdict=viol[i]))
    return groups


def replay(ctx):
    """bin/check C11 --replay FILE: re-execute the vectors of a replay file on the current tree and
    let TLC judge the new sequences."""
    rep = json.load(open(ctx.replay))
    vecs = [v["detail"]["vector"] for v in rep.get("violations", []) if isinstance(v.get("detail"), dict) and "vector" in v["detail"]]
    if not vecs:
        raise vf.Inconclusive("no vectors in %s" % ctx.replay)
    cases = [dict(id=i + 1, w=v["w"], hist=v["hist"],
                  groups=[dict(q=g["q"], k=g["k"], ks=g.get("ks", 1)) for g in v["groups"]] or ([] if v.get("il") else [dict(q=-1, k=2, ks=1)]),
                  il=[dict(qs=g["qs"], sched=g["sched"]) for g in v.get("il", [])]) for i, v in enumerate(vecs)]
    cp, rp = os.path.join(ctx.tmp, "pcases.ndjson"), os.path.join(ctx.tmp, "presults.ndjson")
    vf.write_ndjson(cp, cases)
    binary = vf.build_gotest(ctx, ".", harness_dirs("c10", "c11"))
    rc, out = vf.run_gotest(ctx, binary, "^TestVfC11Cases$", env={"VF_CASES": cp, "VF_RESULTS": rp}, timeout=300)
    if rc != 0 or "VFSUMMARY" not in out:
        raise vf.Inconclusive("case driver failed (rc=%s):\n%s" % (rc, out[-3000:]))
    real = vf.read_ndjson(rp)
    viol, drift, tr = validate(ctx, "replay", real, 300)
    groups = report(ctx, viol, {v["id"]: v for v in real}, "replayed vectors")
    ctx.log("replayed %d vectors: %s" % (len(real), {k: len(v) for k, v in groups.items()}))
    ctx.cov = dict(states=tr.distinct, transitions=tr.generated, traces_validated_against_impl=len(real),
                   replay_of=ctx.replay, samples=[real[0]])


def run(ctx):
    quick = ctx.tier == "quick"
    ctx.level = "model_checking"
    if getattr(ctx, "replay", None):
        return replay(ctx)

    # ---- 1. model pass + case generation
    # *_racks: one datacenter with up to 4 hosts in 2 racks (runs of same-rack hosts on the ring, racks
    # r1 r1 r1 r2), replication factor 3 > number of racks and > number of hosts
    cfgs_used = ["Gen_Policies_quick.cfg", "Gen_Policies_quick_racks.cfg"] if quick else [
        "Gen_Policies_thorough_a.cfg", "Gen_Policies_thorough_b.cfg", "Gen_Policies_quick_racks.cfg"]
    cases, gens = [], []
    for cfg in cfgs_used:
        gen = vf.tlc_must_pass(ctx, "Gen_Policies", cfg, workers=DEV_WORKERS, heap="8g", timeout=400 if quick else 2400,
                               deadlock=False)
        got = vf.tlc_printed(gen.out, "CASE")
        gen.out = ""
        if not got:
            raise vf.Inconclusive("the generator printed no cases (%s)" % cfg)
        # every stage-3 state is one case; the other states are the enumeration levels above it
        lay = {json.dumps([c["w"]["ring"], c["w"]["dc"], c["w"]["rack"]]) for c in got}
        mid = {json.dumps(c["w"], sort_keys=True) for c in got}
        if gen.distinct != 1 + len(lay) + len(mid) + len(got):
            raise vf.Inconclusive("generator output incomplete (%s): %d cases parsed, %d states, %d layouts, %d worlds" % (
                cfg, len(got), gen.distinct, len(lay), len(mid)))
        cases += got
        gens.append(gen)
    cfg = "+".join(cfgs_used)
    for i, c in enumerate(cases):
        c["id"] = i + 1
    cp = os.path.join(ctx.tmp, "pcases.ndjson")
    il_every = 12 if quick else 4
    vf.write_ndjson(cp, [dict(id=c["id"], w=c["w"], hist=c["hist"], groups=[dict(q=g["q"], k=g["k"], ks=g["ks"]) for g in c["groups"]],
                              il=interleaved_for(c, ctx.seed, il_every)) for c in cases])
    ncases = len(cases)
    npicks_pred = sum(g["k"] for c in cases for g in c["groups"])
    cfgs = {polcfg(c["w"]) for c in cases}
    ctx.log("generated %d cases, %d predicted picks, %d policy/option combinations" % (ncases, npicks_pred, len(cfgs)))
    sample_case = cases[ncases * 3 // 5]
    exp = {c["id"]: [g["exp"] for g in c["groups"]] for c in cases}
    place = {c["id"]: [g["place"] for g in c["groups"]] for c in cases}
    del cases

    # ---- 2. execute on the real policy objects
    binary = vf.build_gotest(ctx, ".", harness_dirs("c10", "c11"))
    rp = os.path.join(ctx.tmp, "presults.ndjson")
    rc, out = vf.run_gotest(ctx, binary, "^TestVfC11Cases$", env={"VF_CASES": cp, "VF_RESULTS": rp}, timeout=900)
    m = re.search(r"^VFSUMMARY (.*)$", out, re.M)
    if not m or rc != 0:
        raise vf.Inconclusive("case driver failed (rc=%s):\n%s" % (rc, out[-3000:]))
    if json.loads(m.group(1))["executed"] != ncases:
        raise vf.Inconclusive("case driver executed %s of %d" % (m.group(1), ncases))

    # ---- 3. exact agreement with the prediction, else TLC judges the real sequences
    agree, differ, sampled, picks_real = 0, [], [], 0
    n_il, iters_il, ilvecs = 0, 0, []
    nmid = 0
    with open(rp) as f:
        for n, line in enumerate(f):
            vec = json.loads(line)
            picks_real += sum(len(g["picks"]) for g in vec["groups"])
            same = vec["pclass"] == "none" and len(vec["groups"]) == len(exp[vec["id"]]) and all(
                g["picks"] == e and not any(g["capped"]) for g, e in zip(vec["groups"], exp[vec["id"]])) and all(
                # ... and the replica list the policy holds is Cassandra's placement, element for element
                g["realrep"] == pl for g, pl in zip(vec["groups"], place[vec["id"]]))
            # a plan whose rest offered the host that was reported down meanwhile: TLC judges the vector
            if any(m["victim"] in m["rest"] for m in vec.get("mid", [])):
                same = False
            nmid += len(vec.get("mid", []))
            if same and vec["il"]:
                # interleaved iterators have no predicted sequence: TLC judges them (the sequential groups,
                # identical to the prediction, need not be judged again)
                n_il += 1
                iters_il += sum(len(g["qs"]) for g in vec["il"])
                ilvecs.append(dict(vec, groups=[]))
            elif same:
                agree += 1
                if n % (53 if quick else 211) == 0:
                    sampled.append(vec)
            else:
                differ.append(vec)
    ctx.log("real policies: %d cases, %d picks drained; exact agreement %d, judged by TLC %d (+%d agreeing as binding sample)" % (
        ncases, picks_real, agree, len(differ), len(sampled)))
    ctx.log("interleaved iterators: %d cases, %d iterators" % (n_il + sum(1 for v in differ if v["il"]), iters_il))
    ctx.log("plans during which a not yet offered host was reported down: %d" % nmid)
    if nmid == 0:
        raise vf.Inconclusive("no plan with a host reported down in its middle was recorded")
    vecs = differ + sampled + ilvecs
    byid = {v["id"]: v for v in vecs}
    viol, drift, tr1 = validate(ctx, "cases", vecs, 900 if quick else 2400)
    agreeing = {v["id"] for v in sampled}
    for i in viol:
        if i in agreeing:
            raise vf.Inconclusive("TLC rejects a vector that equals the prediction exactly: %s" % json.dumps(viol[i])[:1500])
    groups = report(ctx, viol, byid, "enumerated cases")
    ctx.log("enumerated: %s" % {k: len(v) for k, v in groups.items()})
    other_order = len(differ) - len([v for v in differ if v["id"] in viol])
    if drift:
        d = next(iter(drift.values()))
        ctx.add_drift("%d enumerated case(s): the property predicates hold but %s differs from Policies.tla's prediction; e.g. %s"
                      % (len(drift), sorted(d["drift"]), json.dumps(d["driftsample"])[:600]))

    # ---- 4. code -> spec: random histories interleaved with picks
    nrand = 1500 if quick else 20000
    vp = os.path.join(ctx.tmp, "prandom.ndjson")
    rc, out = vf.run_gotest(ctx, binary, "^TestVfC11Random$", env={"VF_RESULTS": vp, "VF_COUNT": nrand}, timeout=900)
    if rc != 0 or "VFSUMMARY" not in out:
        raise vf.Inconclusive("random driver failed (rc=%s):\n%s" % (rc, out[-3000:]))
    rvecs = vf.read_ndjson(vp)
    if len(rvecs) != nrand:
        raise vf.Inconclusive("random driver wrote %d of %d vectors" % (len(rvecs), nrand))
    rby = {v["id"]: v for v in rvecs}
    rviol, rdrift, tr2 = validate(ctx, "random", rvecs, 900 if quick else 2400)
    rgroups = report(ctx, rviol, rby, "random histories (seed %d)" % ctx.seed)
    ctx.log("random histories: %d pick points, %s" % (len(rvecs), {k: len(v) for k, v in rgroups.items()}))
    if rdrift:
        d = next(iter(rdrift.values()))
        ctx.add_drift("%d random vector(s): the property predicates hold but %s differs from Policies.tla's prediction; e.g. id %s %s"
                      % (len(rdrift), sorted(d["drift"]), d["id"], json.dumps(d["driftsample"])[:600]))

    # ---- 5. picks driven through the real queryExecutor with speculative execution (race detector in the
    #         thorough tier): the one iterator of a query is shared by the main and the speculative executions
    cbin = binary if quick else vf.build_gotest(ctx, ".", harness_dirs("c10", "c11"), race=True)
    xp = os.path.join(ctx.tmp, "pexec.ndjson")
    nexec = 40 if quick else 300
    rc, out = vf.run_gotest(ctx, cbin, "^TestVfC11Executor$", env={"VF_RESULTS": xp, "VF_COUNT": nexec}, timeout=900, check=False)
    xvecs, tr4 = [], None
    if "WARNING: DATA RACE" in out:
        ctx.violation("executor-data-race", "the race detector reported a data race while one query ran through queryExecutor "
                      "with speculative execution", out[out.index("WARNING: DATA RACE"):][:3000])
    elif rc != 0 or "VFSUMMARY" not in out:
        mm = re.search(r"^(panic|fatal error): [^\n]*", out, re.M)
        if mm:
            ctx.violation("executor-crash", "the process died while one query ran through queryExecutor with speculative "
                          "execution: " + mm.group(0), out[-3000:])
        else:
            raise vf.Inconclusive("executor driver failed (rc=%s):\n%s" % (rc, out[-3000:]))
    else:
        xvecs = vf.read_ndjson(xp)
        if len(xvecs) != nexec:
            raise vf.Inconclusive("executor driver wrote %d of %d vectors" % (len(xvecs), nexec))
        xviol, xdrift, tr4 = validate(ctx, "executor", xvecs, 600)
        xgroups = report(ctx, xviol, {v["id"]: v for v in xvecs}, "queries through queryExecutor with speculative execution")
        ctx.log("executor: %d queries, %s" % (len(xvecs), {k: len(v) for k, v in xgroups.items()}))
        if xdrift:
            d = next(iter(xdrift.values()))
            ctx.add_drift("%d executor vector(s): the predicates hold but %s differs from the prediction; e.g. id %s"
                          % (len(xdrift), sorted(d["drift"]), d["id"]))

    # ---- 5b. bursts of simultaneous notifications, judged after quiescence
    bp = os.path.join(ctx.tmp, "pburst.ndjson")
    nburst = 400 if quick else 4000
    rc, out = vf.run_gotest(ctx, binary, "^TestVfC11Burst$", env={"VF_RESULTS": bp, "VF_COUNT": nburst}, timeout=900)
    if rc != 0 or "VFSUMMARY" not in out:
        raise vf.Inconclusive("burst driver failed (rc=%s):\n%s" % (rc, out[-3000:]))
    bvecs = vf.read_ndjson(bp)
    if len(bvecs) != nburst:
        raise vf.Inconclusive("burst driver wrote %d of %d vectors" % (len(bvecs), nburst))
    bviol, bdrift, tr5 = validate(ctx, "burst", bvecs, 900)
    bgroups = report(ctx, bviol, {v["id"]: v for v in bvecs}, "simultaneous notifications (seed %d)" % ctx.seed)
    ctx.log("bursts: %d, %s" % (len(bvecs), {k: len(v) for k, v in bgroups.items()}))

    # ---- 6. concurrent safety run (race detector in the thorough tier)
    sp = os.path.join(ctx.tmp, "psafety.ndjson")
    rounds = 12 if quick else 60
    rc, out = vf.run_gotest(ctx, cbin, "^TestVfC11Concurrent$", env={"VF_RESULTS": sp, "VF_COUNT": rounds,
                                                                    "VF_MILLIS": 150 if quick else 400}, timeout=900, check=False)
    if "WARNING: DATA RACE" in out:
        ctx.violation("concurrent-data-race", "the race detector reported a data race while picking concurrently with "
                      "host add/remove/up/down", out[out.index("WARNING: DATA RACE"):][:3000])
    elif rc != 0 or "VFSUMMARY" not in out:
        if re.search(r"^(panic|fatal error): ", out, re.M):
            ctx.violation("concurrent-crash", "the process died during the concurrent run: " +
                          re.search(r"^(panic|fatal error): [^\n]*", out, re.M).group(0), out[-3000:])
        else:
            raise vf.Inconclusive("concurrent driver failed (rc=%s):\n%s" % (rc, out[-3000:]))
    srecs = vf.read_ndjson(sp) if os.path.exists(sp) else []
    tr3 = None
    if srecs:
        tr3 = vf.run_tlc(ctx, "Trace_PoliciesSafety", "Trace_PoliciesSafety.cfg", workers=1, heap="2g", timeout=300,
                         env={"VF_TRACE": sp}, deadlock=False, name="psafety")
        if tr3.violated == "Busy":
            raise vf.Inconclusive("a concurrent round made no picks or no mutations (vacuous)")
        if not tr3.ok:
            raise vf.Inconclusive("safety validation failed to run: %s\n%s" % (tr3.error or tr3.violated, tr3.out[-2000:]))
        if tr3.distinct != len(srecs) + 1:
            raise vf.Inconclusive("safety validation evaluated %d states for %d records" % (tr3.distinct, len(srecs)))
        for v in vf.tlc_printed(tr3.out, "VIOL"):
            r = v["rec"]
            cfgs_ = polcfg(r)
            for k in v["kinds"]:
                ctx.violation(cfgs_ + ":" + k, "concurrent picks with add/remove/up/down: %s (%s)" % (k, r["pmsg"] or r), r)
    ctx.log("concurrent rounds: %d, picks %d, mutations %d" % (len(srecs), sum(r["picks"] for r in srecs),
                                                               sum(r["mutations"] for r in srecs)))

    # ---- evidence
    trs = [t for t in (tr1, tr2, tr3, tr4, tr5) if t]
    sample_vec = (differ or sampled)[0]
    ctx.cov = dict(
        states=sum(g.distinct for g in gens) + sum(t.distinct for t in trs),
        transitions=sum(g.generated for g in gens) + sum(t.generated for t in trs),
        traces_validated_against_impl=ncases + len(rvecs) + len(srecs) + len(xvecs) + len(bvecs),
        executor_queries=len(xvecs), simultaneous_notification_bursts=len(bvecs),
        exhaustive=True, generator_cfg=cfg,
        enumerated_cases=ncases, policy_option_combinations=len(cfgs), picks_predicted=npicks_pred, picks_drained=picks_real,
        exact_agreement=agree, interleaved_cases=n_il, interleaved_iterators=iters_il, judged_by_tlc_predicates=len(vecs), accepted_with_other_replica_order=other_order - len(drift),
        drift_vectors=len(drift) + len(rdrift),
        random_pick_points=len(rvecs), random_failing=len(rviol),
        concurrent_rounds=len(srecs), concurrent_picks=sum(r["picks"] for r in srecs),
        classes={k: len(v) for k, v in groups.items()}, random_classes={k: len(v) for k, v in rgroups.items()},
        samples=[dict(kind="generated case with predicted sequences", case=sample_case),
                 dict(kind="real vector judged by TLC", vector=sample_vec, verdict=viol.get(sample_vec["id"], "property holds")),
                 dict(kind="random history vector", vector=rvecs[len(rvecs) // 2])],
    )
    ctx.assumptions += [
        "replicas are those of the reference placement (spec/Topology.tla); 'nearest tier' is the policy's tier 0",
        "a host is 'known' to the policy after AddHost/HostUp until RemoveHost/HostDown; host state changes without a "
        "notification are modelled as silent down only",
        "routing keys are mapped to tokens with the OrderedPartitioner (token = key) so that every lookup class is reachable",
        "the concurrent run is a sampled schedule (goroutines, race detector in the thorough tier), safety predicates only",
    ]
