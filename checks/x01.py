"""X01 (extension) - schema agreement, the schema metadata cache, routing key info.

SchemaAgree.tla / SchemaMeta.tla (model checking, wrong variants rejected, reachability guards)
+ Gen_SchemaAgree.tla / Gen_SchemaMeta.tla (TLC behaviours forced onto the real Session, the abstract state compared
  after every command)
+ Trace_SchemaAgree.tla / Trace_SchemaMeta.tla (TLC evaluates the properties on every recorded execution: the replays,
  seeded free-running scenarios, schema-change EVENT frames through the real debouncer path)."""
import collections, json, os, random, re, concurrent.futures as cf
import vf

AGREE_INVS = "ReachMarks TypeOK AgreeSound AgreeComplete ErrOnlyLate CtxOnlyCancelled CancelHonoured DeadlineHonoured DdlWaits"
META_INVS = ("ReachMarks TypeOK NoStaleRead StaleHasPendingEvent FailedNotCached ErrorIsOwn NotExistOnlyIfAbsent SharedCache "
             "RouteFailedNotCached RouteSingleFlight RouteBounded RouteFromSchema")

# wrong driver models TLC has to reject: (variant, invariant that must be violated)
AGREE_WRONG = [("fail_is_agree", "AgreeSound"), ("err_early", "ErrOnlyLate"), ("no_deadline", "DeadlineHonoured"),
               ("ignore_ctx", "CancelHonoured"), ("count_invalid", "AgreeComplete")]
META_WRONG = [("never_cache", "SharedCache", "PlansMeta2"), ("refresh_unlocked", "NoStaleRead", "PlansMeta2"),
              ("cache_partial", "FailedNotCached", "PlansMeta2"), ("clear_unlocked", "NoStaleRead", "PlansMeta2"),
              ("no_clear_on_table", "NoStaleRead", "PlansMeta2"), ("lose_event", "StaleHasPendingEvent", "PlansMeta2"),
              ("route_never_cache", "RouteSingleFlight", "PlansRoute"), ("route_cache_failure", "RouteFailedNotCached", "PlansRoute")]
# situations that must be reachable (TLC must find a counterexample to "never")
AGREE_REACH = {"nil", "disagree", "ctx", "ddlerr", "nullrow_agreement", "invalidrow_agreement", "failed_then_nil", "ddl_nil"}
META_REACH = {"hit", "torn", "notexist", "policy", "clear_waits", "fetch_failed", "route_key2", "route_nil", "route_removed", "route_join",
              "route_failed", "route_evicted_inflight"}

WHAT = {
    "await-no-return-on-agreement-null-schema-version": "a system.peers row with a null schema_version is counted as a schema version of its own (the zero uuid): the wait does not end although every host that has a version agrees",
    "await-no-return-on-agreement": "the wait for schema agreement went on (or ended with an error) after a poll round in which all counted hosts had the same version",
    "await-nil-without-agreement": "AwaitSchemaAgreement returned nil although the last poll round did not show agreement (a failed query or differing versions)",
    "await-error-before-maxwait": "the inconsistency error was returned before MaxWaitSchemaAgreement had elapsed",
    "await-ctx-error-without-cancel": "a context error was returned although the caller's context was not done",
    "await-ignores-cancel": "the wait kept polling after the caller's context was cancelled",
    "await-polls-past-deadline": "the wait keeps polling long after MaxWaitSchemaAgreement",
    "ddl-returned-before-agreement": "a schema-changing statement returned although no poll showed agreement, MaxWaitSchemaAgreement had not elapsed and the context was not cancelled",
    "schema-stale-after-event": "KeyspaceMetadata returned metadata older than a schema change whose event had been handled before the call began",
    "schema-result-not-a-complete-fetch": "KeyspaceMetadata returned metadata that is not the outcome of one complete, successful fetch",
    "schema-failed-tables-query-cached": "the system_schema.tables query failed, yet the fetch was treated as a success: metadata without the keyspace's tables was returned and cached",
    "schema-nil-metadata-without-error": "KeyspaceMetadata returned nil metadata and a nil error",
    "schema-error-without-failed-fetch": "KeyspaceMetadata returned an error although no fetch failed while the call (or a call it overlapped) was running: a failure was cached",
    "schema-absent-keyspace-wrong-error": "a keyspace that does not exist was not reported as ErrKeyspaceDoesNotExist",
    "schema-failure-reported-as-missing-keyspace": "a failed system_schema.keyspaces query is reported as ErrKeyspaceDoesNotExist although the keyspace exists",
    "schema-refetch-while-cached": "a keyspace was fetched again although a complete entry was cached and no event for it had arrived",
    "schema-unexpected-error": "KeyspaceMetadata returned ErrSessionClosed / ErrNoKeyspace on an open session for a named keyspace",
    "schema-call-never-returns": "callers of KeyspaceMetadata / GetRoutingKey are blocked for good after every node answer was delivered",
    "schema-event-not-applied-table": "a TABLE schema change event did not drop the cached keyspace",
    "schema-event-not-applied-type": "a TYPE schema change event did not drop the cached keyspace",
    "schema-event-not-applied-function": "a FUNCTION schema change event did not drop the cached keyspace",
    "schema-event-not-applied-aggregate": "an AGGREGATE schema change event did not drop the cached keyspace",
    "schema-event-not-applied-keyspace": "a KEYSPACE schema change event did not drop the cached keyspace",
    "policy-not-refreshed-on-keyspace-event": "a keyspace change event did not make the token-aware policy fetch the keyspace's metadata again",
    "policy-stale-after-keyspace-event": "after a keyspace change event the token-aware policy was handed metadata older than the change",
    "routing-key-not-from-partition-key": "GetRoutingKey returned a routing key that is not the table's partition key columns taken from the bound values (or nil/non-nil wrongly)",
    "routing-noconn-error-cached": "the 'no connection available' error of a routing-info computation stays in the cache: GetRoutingKey keeps failing for that statement after the hosts are back",
    "routing-error-without-cause": "GetRoutingKey returned an error although nothing failed while the call (or a call it overlapped) was running: a failure was cached",
    "routing-recomputed-while-cached": "routing info of a statement was computed again while an entry for it was in the cache (no de-duplication)",
    "routing-cache-exceeds-max": "the routing info cache holds more statements than MaxRoutingKeyInfo",
}


def _cfg(ctx, name, text):
    d = vf._scratch_spec_dir(ctx, "w")
    with open(os.path.join(d, name), "w") as f:
        f.write(text)
    return name


def agree_cfg(ctx, name, spec="Spec", variant="ok", countnull="FALSE", polls=3, fail=1, env=2, invs=AGREE_INVS, prop=""):
    return _cfg(ctx, name, "SPECIFICATION %s\nCONSTANTS\n  Vers = {\"a\", \"b\"}\n  Peers = {\"p1\", \"p2\"}\n  MaxPolls = %d\n  MaxFail = %d\n"
                "  MaxEnv = %d\n  CountNullVersion = %s\n  Variant = \"%s\"\nINVARIANTS %s\n%sCHECK_DEADLOCK FALSE\n" % (
                    spec, polls, fail, env, countnull, variant, invs, ("PROPERTY %s\n" % prop) if prop else ""))


def meta_consts(plans, ks='{"k1"}', maxver=2, absent="{}", notable="{}", fail=1, down=0, maxroute=1, pkprep="FALSE", takeall="FALSE",
                ksnotexist="FALSE", noconn="FALSE", variant="ok"):
    return ("CONSTANTS\n  Keyspaces = %s\n  MaxVer = %d\n  AbsentVers = %s\n  NoTableVers = %s\n  Plans <- %s\n  MaxFail = %d\n  MaxDown = %d\n"
            "  MaxRoute = %d\n  PkFromPrepare = %s\n  TakeAll = %s\n  KsFailureIsNotExist = %s\n  DefectNoConnCached = %s\n  Variant = \"%s\"\n" % (
                ks, maxver, absent, notable, plans, fail, down, maxroute, pkprep, takeall, ksnotexist, noconn, variant))


def meta_cfg(ctx, name, plans, spec="Spec", invs=META_INVS, prop="", **kw):
    return _cfg(ctx, name, "SPECIFICATION %s\n%sINVARIANTS %s\n%sCHECK_DEADLOCK FALSE\n" % (
        spec, meta_consts(plans, **kw), invs, ("PROPERTY %s\n" % prop) if prop else ""))


def _tlc(ctx, module, cfg, name, workers=2, timeout=900, heap="3g", **kw):
    return name, vf.run_tlc(ctx, module, cfg, workers=workers, timeout=timeout, heap=heap, name=name, quiet=True, **kw)


# ------------------------------------------------------------------ model passes

def model_jobs(ctx, quick):
    """(kind, name, module, cfg, expected) - expected: None = must pass, else the invariant that must be violated"""
    jobs = []
    # ---- agreement
    jobs.append(("pass", "agree_fixed", "MC_SchemaAgree", agree_cfg(ctx, "MC_SchemaAgree_g_fixed.cfg", env=1 if quick else 2,
                                                                    polls=2 if quick else 3), None))
    jobs.append(("pass", "agree_live", "MC_SchemaAgree", agree_cfg(ctx, "MC_SchemaAgree_g_live.cfg", spec="FairSpec", env=1, polls=2 if quick else 3,
                                                                   prop="Terminates"), None))
    jobs.append(("asis", "agree_asis", "MC_SchemaAgree", agree_cfg(ctx, "MC_SchemaAgree_g_asis.cfg", countnull="TRUE"), "AgreeComplete"))
    aw = AGREE_WRONG if not quick else [AGREE_WRONG[(ctx.seed + i) % len(AGREE_WRONG)] for i in range(2)]
    for v, inv in aw:
        jobs.append(("wrong", "agree_x_" + v, "MC_SchemaAgree", agree_cfg(ctx, "MC_SchemaAgree_g_x_%s.cfg" % v, variant=v), inv))
    # ---- metadata cache / events / routing
    jobs.append(("pass", "meta_callers", "MC_SchemaMeta", meta_cfg(ctx, "MC_SchemaMeta_g_meta.cfg", "PlansMeta2", maxver=2 if quick else 3,
                                                                   absent="{2}"), None))
    if quick:
        jobs.append(("pass", "meta_route_same", "MC_SchemaMeta", meta_cfg(ctx, "MC_SchemaMeta_g_route1.cfg", "PlansRoute1", maxver=2, down=1, fail=0), None))
        jobs.append(("pass", "meta_route_two", "MC_SchemaMeta", meta_cfg(ctx, "MC_SchemaMeta_g_route2.cfg", "PlansRoute2", maxver=2, down=0, fail=0), None))
    else:
        jobs.append(("pass", "meta_route", "MC_SchemaMeta", meta_cfg(ctx, "MC_SchemaMeta_g_route.cfg", "PlansRoute", maxver=2, down=1, fail=1,
                                                                     notable="{2}"), None))
    jobs.append(("pass", "meta_live", "MC_SchemaMeta", meta_cfg(ctx, "MC_SchemaMeta_g_live.cfg", "PlansRouteMeta" if not quick else "PlansMeta2",
                                                                spec="FairSpec", maxver=2, fail=1, prop="Terminates"), None))
    if not quick:
        jobs.append(("pass", "meta_three", "MC_SchemaMeta", meta_cfg(ctx, "MC_SchemaMeta_g_three.cfg", "PlansMeta3", maxver=2), None))
        jobs.append(("pass", "meta_two_keyspaces", "MC_SchemaMeta", meta_cfg(ctx, "MC_SchemaMeta_g_2k.cfg", "PlansMeta2k", ks='{"k1", "k2"}',
                                                                           maxver=2, fail=0, takeall="TRUE"), None))
        jobs.append(("pass", "meta_route_pk", "MC_SchemaMeta", meta_cfg(ctx, "MC_SchemaMeta_g_routepk.cfg", "PlansRoute", maxver=2, down=1,
                                                                      pkprep="TRUE", maxroute=2), None))
        jobs.append(("pass", "meta_route_meta", "MC_SchemaMeta", meta_cfg(ctx, "MC_SchemaMeta_g_routemeta.cfg", "PlansRouteMeta", maxver=2,
                                                                        down=1, notable="{2}"), None))
    jobs.append(("asis", "meta_asis_noconn", "MC_SchemaMeta", meta_cfg(ctx, "MC_SchemaMeta_g_asis1.cfg", "PlansRoute", down=1, noconn="TRUE"),
                 "RouteFailedNotCached"))
    jobs.append(("asis", "meta_asis_notexist", "MC_SchemaMeta", meta_cfg(ctx, "MC_SchemaMeta_g_asis2.cfg", "PlansMeta2", ksnotexist="TRUE"),
                 "NotExistOnlyIfAbsent"))
    # the documented LACK of invalidation of routing info: TLC must find the stale answer
    jobs.append(("asis", "meta_route_never_invalidated", "MC_SchemaMeta", meta_cfg(ctx, "MC_SchemaMeta_g_stale.cfg", "PlansRoute", fail=0,
                                                                                 invs="RouteFreshPerCall"), "RouteFreshPerCall"))
    mw = META_WRONG if not quick else [META_WRONG[(ctx.seed + 3 * i) % len(META_WRONG)] for i in range(3)]
    for v, inv, plans in mw:
        jobs.append(("wrong", "meta_x_" + v, "MC_SchemaMeta", meta_cfg(ctx, "MC_SchemaMeta_g_x_%s.cfg" % v, plans, variant=v, invs=inv), inv))
    return jobs


# ------------------------------------------------------------------ behaviours from TLC

def gen_meta_cfg(ctx, name, plans, maxcmds=26, **kw):
    return _cfg(ctx, name, "SPECIFICATION GenSpec\n%s  MaxCmds = %d\n  Target = \"none\"\nINVARIANT EmitWalk\nCHECK_DEADLOCK FALSE\n" % (
        meta_consts(plans, **kw), maxcmds))


def meta_families(probe, quick):
    asis = dict(ksnotexist="TRUE" if probe["ks_failure_is_notexist"] else "FALSE", noconn="TRUE" if probe["noconn_cached"] else "FALSE")
    fams = [
        dict(name="callers", plans="PlansCallers", maxver=3, fail=1, absent="{}", maxroute=1, pkprep=False),
        dict(name="absent", plans="PlansMeta2", maxver=3, fail=1, absent="{2}", maxroute=1, pkprep=False),
        dict(name="two-keyspaces", plans="PlansMeta2k", ks='{"k1", "k2"}', maxver=2, fail=1, maxroute=1, pkprep=False),
        dict(name="route", plans="PlansRouteAll", maxver=3, fail=1, down=1, maxroute=1, pkprep=False),
        dict(name="route-lru2", plans="PlansRoute3", ks='{"k1", "k2"}', maxver=2, fail=1, down=1, maxroute=2, pkprep=False),
        dict(name="route-notable", plans="PlansRouteMeta", maxver=3, fail=0, down=0, maxroute=1, notable="{2}", pkprep=False),
        dict(name="route-pk", plans="PlansRoute", maxver=2, fail=1, down=1, maxroute=1, pkprep=True),
    ]
    for f in fams:
        f.update(asis)
    return fams


def gen_meta(ctx, fam, num, seed):
    kw = {k: v for k, v in fam.items() if k not in ("name", "plans", "pkprep")}
    kw["pkprep"] = "TRUE" if fam["pkprep"] else "FALSE"
    cfg = gen_meta_cfg(ctx, "Gen_SchemaMeta_g_%s.cfg" % fam["name"], fam["plans"], **kw)
    r = vf.run_tlc(ctx, "Gen_SchemaMeta", cfg, workers=1, timeout=900, heap="3g", simulate="num=%d" % num, depth=60,
                   name="gen_meta_" + fam["name"], extra=["-seed", str(seed)], quiet=True)
    if not r.ok:
        raise vf.Inconclusive("Gen_SchemaMeta (%s) failed: %s\n%s" % (fam["name"], r.error or r.violated, r.out[-1500:]))
    uniq = {}
    for w in vf.tlc_printed(r.out, "WALK"):
        if w["steps"]:
            uniq[(json.dumps(w["plan"], sort_keys=True), json.dumps([s["c"] for s in w["steps"]], sort_keys=True))] = w
    # keep maximal behaviours (a printed prefix of a longer printed behaviour adds nothing)
    keep = []
    items = [(p, json.loads(c), w) for (p, c), w in uniq.items()]
    for p, c, w in items:
        if not any(p2 == p and len(c2) > len(c) and c2[:len(c)] == c for p2, c2, _ in items):
            keep.append(w)
    return fam, keep


# situations TLC has to produce a (shortest, complete) behaviour for: (tag, plans, constants)
META_TARGETS = [
    ("clear-waits-for-refresh", "PlansMeta2", dict()),
    ("caller-waits-for-refresh", "PlansMeta2", dict()),
    ("torn-snapshot", "PlansMeta2", dict()),
    ("refresh-failed", "PlansMeta2", dict(fail=1)),
    ("keyspace-absent", "PlansMeta2", dict(absent="{2}")),
    ("policy-refetch", "PlansMeta2", dict()),
    ("route-join", "PlansRoute", dict()),
    ("route-evict-inflight", "PlansRoute", dict()),
    ("route-noconn", "PlansRoute", dict(down=1)),
    ("route-prepare-failed", "PlansRoute", dict(fail=1)),
    ("route-meta-failed", "PlansRoute", dict(fail=1)),
    ("route-no-table", "PlansRouteMeta", dict(notable="{2}")),
    ("route-nil", "PlansRoute", dict()),
    ("route-stale", "PlansRoute", dict()),
]


def gen_meta_target(ctx, tag, plans, kw, asis):
    c = dict(maxver=2, fail=0, down=0, maxroute=1, takeall="TRUE")
    c.update(asis)
    c.update(kw)
    cfg = _cfg(ctx, "Gen_SchemaMeta_t_%s.cfg" % tag, "SPECIFICATION GenSpec\n%s  MaxCmds = 14\n  Target = \"%s\"\nINVARIANT NeverTarget\nCHECK_DEADLOCK FALSE\n" % (
        meta_consts(plans, **c), tag))
    dump = os.path.join(ctx.tmp, "target_%s.json" % tag)
    r = vf.run_tlc(ctx, "Gen_SchemaMeta", cfg, workers=1, timeout=900, heap="3g", name="gen_target_" + tag,
                   extra=["-dumpTrace", "json", dump, "-noGenerateSpecTE"], quiet=True)
    if r.violated != "NeverTarget" or not os.path.exists(dump):
        raise vf.Inconclusive("TLC found no behaviour for the situation %s (%s %s)\n%s" % (tag, r.violated, r.error, r.out[-1500:]))
    st = json.load(open(dump))["counterexample"]["state"][-1][1]
    fam = dict(name="target:" + tag, maxroute=c["maxroute"], pkprep=False, absent=c.get("absent", "{}"), notable=c.get("notable", "{}"))
    return fam, [dict(plan=st["S"]["plan"], steps=st["hist"], tags=st["tags"], finished=True)]


def _fix(x):
    return {} if isinstance(x, list) else x


def meta_scenarios(walks_by_fam, limit, rng):
    """targets first, then a greedy cover of the situations, then the families filled up evenly"""
    cands = [(fam, w) for fam, ws in walks_by_fam for w in ws]
    chosen, covered = [], set()
    for fam, w in cands:
        if fam["name"].startswith("target:"):
            chosen.append((fam, w))
            covered |= set(w["tags"])
    alltags = {t for _, w in cands for t in w["tags"]}
    while alltags - covered:
        fam, w = max(cands, key=lambda c: (len(set(c[1]["tags"]) - covered), -len(c[1]["steps"])))
        chosen.append((fam, w))
        covered |= set(w["tags"])
    ids = {id(w) for _, w in chosen}
    fams = [fam for fam, ws in walks_by_fam if not fam["name"].startswith("target:")]
    rest = {fam["name"]: [w for w in ws if id(w) not in ids] for fam, ws in walks_by_fam}
    for ws in rest.values():
        rng.shuffle(ws)
    while len(chosen) < limit and any(rest[f["name"]] for f in fams):
        for fam in fams:
            if rest[fam["name"]] and len(chosen) < limit:
                chosen.append((fam, rest[fam["name"]].pop()))
    scs, tags = [], collections.Counter()
    for fam, w in chosen:
        steps = []
        for s in w["steps"]:
            c = dict(s["c"])
            c["exp"] = s["p"]
            c["failpart"] = ""
            steps.append(c)
        scs.append(dict(n=len(scs) + 1, name=("" if fam["name"].startswith("target:") else "walk:") + fam["name"], plan=_fix(w["plan"]),
                        maxroute=fam["maxroute"], pkprep=fam["pkprep"], absent=[2] if fam.get("absent") == "{2}" else [],
                        notable=[2] if fam.get("notable") == "{2}" else [], steps=steps, tags=w["tags"]))
        tags.update(w["tags"])
    return scs, tags


AGREE_FAMILIES = [("agree", '{"Err", "Env"}'), ("deadline", '{"Err", "Env", "Expire", "Zero"}'), ("cancel", '{"Err", "Env", "Cancel"}'),
                  ("all", '{"Err", "Env", "Cancel", "Expire", "Zero", "Reject"}')]


def gen_agree(ctx, fam, allow, countnull, num, seed):
    cfg = _cfg(ctx, "Gen_SchemaAgree_g_%s.cfg" % fam, "SPECIFICATION GenSpec\nCONSTANTS\n  Vers = {\"a\", \"b\"}\n  Peers = {\"p1\", \"p2\"}\n  MaxPolls = 4\n"
               "  MaxFail = 2\n  MaxEnv = 2\n  CountNullVersion = %s\n  Variant = \"ok\"\n  MaxCmds = 16\n  Allow = %s\nINVARIANT EmitWalk\n"
               "CHECK_DEADLOCK FALSE\n" % (countnull, allow))
    r = vf.run_tlc(ctx, "Gen_SchemaAgree", cfg, workers=1, timeout=900, heap="2g", simulate="num=%d" % num, depth=40,
                   name="gen_agree_" + fam, extra=["-seed", str(seed)], quiet=True)
    if not r.ok:
        raise vf.Inconclusive("Gen_SchemaAgree (%s) failed: %s\n%s" % (fam, r.error or r.violated, r.out[-1500:]))
    uniq = {}
    for w in vf.tlc_printed(r.out, "AWALK"):
        uniq[json.dumps(w, sort_keys=True)] = w
    return fam, list(uniq.values())


def agree_scenarios(walks_by_fam, limit, rng):
    scs = []
    per = max(1, limit // len(walks_by_fam))
    for fam, ws in walks_by_fam:
        # spread over what the behaviours end with and how long they are
        buckets = collections.defaultdict(list)
        for w in ws:
            last = w["steps"][-1]["o"] if w["steps"] else w["init"]["o"]
            buckets[(w["init"]["kind"], last["res"], min(len(w["steps"]), 6) // 2)].append(w)
        order = []
        for b in buckets.values():
            rng.shuffle(b)
        while len(order) < per and any(buckets.values()):
            for k in sorted(buckets):
                if buckets[k] and len(order) < per:
                    order.append(buckets[k].pop())
        for w in order:
            has_exp = any(s["c"]["a"] == "Expire" for s in w["steps"])
            before = 0
            for s in w["steps"]:
                if s["c"]["a"] == "Expire":
                    break
                if s["c"]["a"] == "AnsPeers":
                    before += 1
            mw = 0 if w["init"]["zero"] else (250 * max(before, 1) + 400 if has_exp else 30000)
            steps = [dict(a=s["c"]["a"], ans=s["c"]["ans"], v=s["c"]["v"], rows=s["c"]["rows"], local=s["c"]["local"], exp=s["o"]) for s in w["steps"]]
            scs.append(dict(n=len(scs) + 1, name="walk:" + fam, kind=w["init"]["kind"], zero=w["init"]["zero"], local=w["init"]["local"],
                            rows=w["init"]["rows"], maxwait_ms=mw, init_exp=w["init"]["o"], steps=steps))
    return scs


# ------------------------------------------------------------------ traces -> TLC

def _summary(out, what):
    m = re.search(r"^VFSUMMARY (.*)$", out, re.M)
    if not m:
        raise vf.Inconclusive("%s driver gave no summary:\n%s" % (what, out[-3000:]))
    return json.loads(m.group(1))


def _blocks(path):
    if not os.path.exists(path):
        raise vf.Inconclusive("no trace file %s" % path)
    by = collections.defaultdict(list)
    for r in vf.read_ndjson(path):
        by[r["scn"]].append(r)
    for b in by.values():
        b.sort(key=lambda r: r["seq"])
    return by


def _monitor(ctx, module, cfg, blocks, tag, shards):
    """blocks: {scn: [records]} -> (viols, drifts, skips, lines, states)"""
    order = sorted(blocks, key=lambda s: -len(blocks[s]))
    parts = [[] for _ in range(max(1, min(shards, len(order))))]
    for s in order:
        min(parts, key=len).extend(blocks[s])
    paths = []
    for i, p in enumerate(parts):
        if p:
            path = os.path.join(ctx.tmp, "mon_%s_%d.ndjson" % (tag, i))
            vf.write_ndjson(path, p)
            paths.append((path, len(p)))

    def one(a):
        path, n = a
        r = vf.run_tlc(ctx, module, cfg, workers=1, heap="3g", timeout=1500, env={"VF_TRACE": path}, deadlock=False,
                       name="mon_" + os.path.basename(path)[:-7], quiet=True)
        if not r.ok:
            raise vf.Inconclusive("%s failed on %s: %s\n%s" % (module, path, r.error or r.violated, r.out[-2500:]))
        done = re.findall(r'<<"MONDONE", (\d+)>>', r.out)
        if not done or int(done[-1]) != n:
            raise vf.Inconclusive("%s stopped at line %s of %d in %s\n%s" % (module, done[-1] if done else "?", n, path, r.out[-1500:]))
        return vf.tlc_printed(r.out, "MONVIOL"), vf.tlc_printed(r.out, "MONDRIFT"), vf.tlc_printed(r.out, "MONSKIP"), n, r.distinct

    v, d, s, lines, states = [], [], [], 0, 0
    with cf.ThreadPoolExecutor(max_workers=max(1, len(paths))) as ex:
        for a, b, c, n, st in ex.map(one, paths):
            v += a
            d += b
            s += c
            lines += n
            states += st
    return v, d, s, lines, states


def _report(ctx, viols, drifts, blocks, scen_by_scn, what):
    """one violation per scenario and kind; the first drift note of a scenario"""
    seen, bad = set(), set()
    for v in viols:
        if (v["scn"], v["kind"]) in seen:
            continue
        seen.add((v["scn"], v["kind"]))
        bad.add(v["scn"])
        blk = blocks.get(v["scn"], [])
        head = blk[0] if blk else {}
        ctx.violation(v["kind"], "%s [%s %s scenario %s line %s%s]" % (
            WHAT.get(v["kind"], v["kind"]), what, head.get("mode", "?"), v["scn"], v["line"],
            (", " + v["detail"][:300]) if v.get("detail") else ""),
            dict(kind=v["kind"], scenario=scen_by_scn.get(v["scn"]), detail=v.get("detail"), trace=blk[:400]))
    dseen = set()
    for d in drifts:
        if d["scn"] in dseen:
            continue
        dseen.add(d["scn"])
        ctx.add_drift("%s scenario %s line %s: %s (%s)" % (what, d["scn"], d["line"], d["kind"], d.get("detail", "")[:600]))
    return bad, dseen


# ------------------------------------------------------------------ the check

def _replay(ctx):
    """--replay: TLC evaluates the traces stored in a replay file again (with the current specification)"""
    rp = json.load(open(ctx.replay))
    mblocks, ablocks = {}, {}
    for v in rp.get("violations", []):
        tr = (v.get("detail") or {}).get("trace") or []
        if tr:
            (ablocks if tr[0]["scn"] >= 300000 else mblocks)[tr[0]["scn"]] = tr
    if not mblocks and not ablocks:
        raise vf.Inconclusive("the replay file holds no trace")
    vf._scratch_spec_dir(ctx, "w")
    n = st = 0
    for module, blocks, what in (("Trace_SchemaMeta", mblocks, "metadata cache"), ("Trace_SchemaAgree", ablocks, "schema agreement")):
        if blocks:
            v, d, s, lines, states = _monitor(ctx, module, module + ".cfg", blocks, "replay_" + module, 1)
            _report(ctx, v, d, blocks, {}, what)
            n += lines
            st += states
    ctx.cov = dict(states=st, transitions=st, traces_validated_against_impl=0, events_evaluated_by_tlc=n,
                   samples=[dict(kind="stored trace evaluated again", scenarios=sorted(list(mblocks) + list(ablocks))[:20])])


def run(ctx):
    quick = ctx.tier == "quick"
    ctx.level = "model_checking"
    if getattr(ctx, "replay", None):
        return _replay(ctx)
    rng = random.Random(ctx.seed)
    vf._scratch_spec_dir(ctx, "w")
    pool = cf.ThreadPoolExecutor(max_workers=20)

    # ---- 0. build; which variants of the driver model predict this tree (known defects present or repaired)
    binary = vf.build_gotest(ctx, ".", ["common", "x01"])
    rc, out = vf.run_gotest(ctx, binary, "^TestVfX01Probe$", timeout=300)
    m = re.search(r"^VFPROBE (.*)$", out, re.M)
    if not m:
        raise vf.Inconclusive("the probe did not run:\n%s" % out[-3000:])
    probe = json.loads(m.group(1))
    ctx.log("probe: %s" % probe)

    # ---- 2. behaviours from TLC
    fams = meta_families(probe, quick)
    nwalk = 12 if quick else 60
    fut_gm = [pool.submit(gen_meta, ctx, f, nwalk, ctx.seed * 7919 + i) for i, f in enumerate(fams)]
    asis = dict(ksnotexist=fams[0]["ksnotexist"], noconn=fams[0]["noconn"])
    countnull = "TRUE" if probe["null_version_counted"] else "FALSE"
    fut_ga = [pool.submit(gen_agree, ctx, fam, allow, countnull, 150 if quick else 600, ctx.seed * 104729 + i)
              for i, (fam, allow) in enumerate(AGREE_FAMILIES)]

    # ---- 1. model passes (in the background)
    jobs = model_jobs(ctx, quick)
    fut_models = [(j, pool.submit(_tlc, ctx, j[2], j[3], j[1], 4 if j[0] == "pass" else 2, 1500 if quick else 3000, "4g"))
                  for j in jobs]
    walks = [f.result() for f in fut_gm]
    have = {t for _, ws in walks for w in ws for t in w["tags"]}
    # situations the random walks missed: TLC's counterexample to "never" is a shortest complete behaviour that meets them
    fut_gt = [pool.submit(gen_meta_target, ctx, tag, plans, kw, asis) for tag, plans, kw in META_TARGETS if tag not in have or not quick]
    targets = [f.result() for f in fut_gt]
    mscs, tags = meta_scenarios(targets + walks, 64 if quick else 420, rng)

    ascs = agree_scenarios([f.result() for f in fut_ga], 48 if quick else 320, rng)
    need = {t[0] for t in META_TARGETS}
    if need - set(tags):
        raise vf.Inconclusive("the generated behaviours do not reach: %s" % sorted(need - set(tags)))
    ctx.log("behaviours from TLC: %d for the metadata cache (%d commands, situations %s), %d waits for agreement (%d commands)" % (
        len(mscs), sum(len(s["steps"]) for s in mscs), dict(tags), len(ascs), sum(len(s["steps"]) for s in ascs)))
    mp, ap = os.path.join(ctx.tmp, "x01_meta_scen.ndjson"), os.path.join(ctx.tmp, "x01_agree_scen.ndjson")
    vf.write_ndjson(mp, mscs)
    vf.write_ndjson(ap, ascs)

    # ---- 3. drive the real code
    env = {"VF_X01_TB_FAILURE_CACHED": "1" if probe["tb_failure_cached"] else "0"}
    runs = {
        "meta_replay": pool.submit(vf.run_gotest, ctx, binary, "^TestVfX01MetaReplay$", dict(env, VF_X01_SCENARIOS=mp, VF_X01_PAR=8), 1500),
        "meta_free": pool.submit(vf.run_gotest, ctx, binary, "^TestVfX01MetaFree$", dict(env, VF_X01_SCEN=40 if quick else 500, VF_X01_PAR=8), 1500),
        "meta_wire": pool.submit(vf.run_gotest, ctx, binary, "^TestVfX01MetaWire$", dict(env, VF_X01_SCEN=5 if quick else 20), 1500),
        "agree_replay": pool.submit(vf.run_gotest, ctx, binary, "^TestVfX01AgreeReplay$", dict(env, VF_X01_ASCENARIOS=ap, VF_X01_PAR=12), 1500),
        "agree_free": pool.submit(vf.run_gotest, ctx, binary, "^TestVfX01AgreeFree$", dict(env, VF_X01_SCEN=20 if quick else 160,
                                                                                         VF_X01_PAR=20 if quick else 40), 1500),
    }
    sums = {}
    for k, f in runs.items():
        rc, out = f.result()
        sums[k] = _summary(out, k)
        if sums[k].get("failed"):
            raise vf.Inconclusive("%s: scenarios could not be set up: %s" % (k, sums[k].get("first_error")))
    ctx.log("drivers: %s" % sums)

    # ---- 4. did the code follow the behaviours
    followed = {"meta": 0, "agree": 0}
    timing = 0
    for kind, fn in (("meta", "x01_meta_replay_results.ndjson"), ("agree", "x01_agree_replay_results.ndjson")):
        for r in vf.read_ndjson(os.path.join(ctx.tmp, fn)):
            if r.get("err"):
                raise vf.Inconclusive("replay scenario %s could not be set up: %s" % (r["name"], r["err"]))
            if r["diverged"] and r.get("timing"):
                timing += 1       # the deadline passed earlier than scripted: the environment's step, allowed by the model
            elif not r["diverged"]:
                followed[kind] += 1

    # ---- 5. TLC evaluates the properties on every recorded execution
    mblocks = {}
    for fn in ("x01_meta_replay.ndjson", "x01_meta_free.ndjson", "x01_meta_wire.ndjson"):
        mblocks.update(_blocks(os.path.join(ctx.tmp, fn)))
    ablocks = {}
    for fn in ("x01_agree_replay.ndjson", "x01_agree_free.ndjson"):
        ablocks.update(_blocks(os.path.join(ctx.tmp, fn)))
    if not any(r["ev"] == "q_ans" for b in mblocks.values() for r in b) or not any(r["ev"] == "a_peers" for b in ablocks.values() for r in b):
        raise vf.Inconclusive("the drivers recorded no schema fetch / no agreement poll")
    fm = pool.submit(_monitor, ctx, "Trace_SchemaMeta", "Trace_SchemaMeta.cfg", mblocks, "meta", 3 if quick else 8)
    fa = pool.submit(_monitor, ctx, "Trace_SchemaAgree", "Trace_SchemaAgree.cfg", ablocks, "agree", 2 if quick else 4)
    mv, md, ms, mlines, mstates = fm.result()
    av, ad, askip, alines, astates = fa.result()
    scen_m = {100000 + s["n"]: dict(name=s["name"], plan=s["plan"], commands=[(c["a"], c["x"] or c["k"] or c["s"] or c["ans"] or c["n"]) for c in s["steps"]])
              for s in mscs}
    scen_a = {300000 + s["n"]: dict(name=s["name"], kind=s["kind"], rows=s["rows"], local=s["local"], maxwait_ms=s["maxwait_ms"],
                                    commands=[(c["a"], c["ans"]) for c in s["steps"]]) for s in ascs}
    badm, driftm = _report(ctx, mv, md, mblocks, scen_m, "metadata cache")
    bada, drifta = _report(ctx, av, ad, ablocks, scen_a, "schema agreement")
    ctx.log("monitors: %d + %d scenarios, %d + %d events evaluated by TLC; violations %d + %d, drift notes %d + %d, stalls %d + %d" % (
        len(mblocks), len(ablocks), mlines, alines, len(mv), len(av), len(md), len(ad), len(ms), len(askip)))

    # ---- 6. model passes
    states = trans = 0
    mcs = []
    reached = set()
    for j, f in fut_models:
        kind, name, module, cfg, expect = j
        _, r = f.result()
        if kind == "pass":
            reached |= set(re.findall(r'<<"REACHED", "(\w+)">>', r.out))
            if not r.ok:
                raise vf.Inconclusive("model pass %s failed: violated=%s error=%s\n%s" % (name, r.violated, r.error, "\n".join(r.out.splitlines()[-40:])))
            states += r.distinct
            trans += r.generated
        elif r.violated != expect:
            raise vf.Inconclusive("%s: TLC was expected to violate %s (%s), got violated=%s ok=%s error=%s" % (
                name, expect, {"wrong": "a wrong variant of the model must be rejected",
                               "asis": "the model of the known defect must contradict the property"}[kind], r.violated, r.ok, r.error))
        mcs.append(dict(cfg=name, kind=kind, expected=expect or "no error", distinct=r.distinct, generated=r.generated, depth=r.depth,
                        wall_s=round(r.wall, 1)))
    pool.shutdown()
    if (AGREE_REACH | META_REACH) - reached:
        raise vf.Inconclusive("situations the model passes did not reach (vacuous properties): %s" % sorted((AGREE_REACH | META_REACH) - reached))
    ctx.log("model: %d distinct states / %d transitions over %d passing configurations; %d wrong variants rejected, %d situations reached, "
            "%d known-defect models contradicted" % (states, trans, sum(1 for m in mcs if m["kind"] == "pass"),
                                                     sum(1 for m in mcs if m["kind"] == "wrong"), len(AGREE_REACH) + len(META_REACH),
                                                     sum(1 for m in mcs if m["kind"] == "asis")))

    sample = mscs[0] if mscs else None
    ctx.cov = dict(
        states=states + mstates + astates, transitions=trans,
        traces_validated_against_impl=len(mblocks) + len(ablocks) - len(badm) - len(bada),
        model_configs=mcs, probe=probe,
        behaviours_from_tlc=dict(metadata=len(mscs), agreement=len(ascs)), situations=dict(tags),
        behaviours_followed_by_code=followed, replays_cut_short_by_the_deadline=timing,
        commands_replayed=sum(len(s["steps"]) for s in mscs) + sum(len(s["steps"]) for s in ascs),
        free_scenarios=dict(metadata=sums["meta_free"]["scenarios"], calls=sums["meta_free"].get("calls"), wire=sums["meta_wire"]["scenarios"],
                            agreement=sums["agree_free"]["scenarios"]),
        events_evaluated_by_tlc=mlines + alines, scenarios_with_drift=len(driftm) + len(drifta), stalls=len(ms) + len(askip),
        event_mix=dict(collections.Counter(r["ev"] for b in list(mblocks.values()) + list(ablocks.values()) for r in b)),
        samples=[dict(kind="tlc behaviour replayed on the real code", name=sample["name"], plan=sample["plan"],
                      commands=[(c["a"], c["x"] or c["k"] or c["s"] or c["ans"] or c["n"]) for c in sample["steps"]],
                      expected_final=sample["steps"][-1]["exp"])] if sample else [],
    )
    ctx.assumptions += [
        "bounded instances: 2-3 callers with 1-2 calls each, 1-2 keyspaces with <= 3 versions, 3 statements, routing cache of 1-2 entries, "
        "<= 1 failing answer, 2 peers rows, <= 3 (4) poll rounds",
        "one scripted node (control connection + one pooled connection), Cassandra 3.x system_schema tables; protocol 3 for the "
        "metadata path of routing info, protocol 4 for partition key indexes from PREPARE",
        "time is abstract in the model; on the real code MaxWaitSchemaAgreement is 0 / 0.3-0.7 s / 6-30 s and only `elapsed >= MaxWait` "
        "(lower bound) and poll counts are judged",
        "events are delivered by calling Session.handleSchemaEvent (replays, free-running scenarios) and as EVENT frames through "
        "Conn.recv -> eventDebouncer (wire scenarios, 1 s debounce)",
        "a failing system_schema query means the query and the control connection's 3 retries fail",
        "hosts down = HostInfo.setState(NodeDown) on every host (in-package)",
    ]
    if timing:
        ctx.notes.append("%d replayed waits ended by the deadline earlier than the behaviour scripted (machine load); judged by the monitor only" % timing)
