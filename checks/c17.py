"""C17 - pools stay within bounds; a session is safe to share and always closes.
Pool.tla (graph walk on a real hostConnPool) + Lifecycle.tla (debouncers, control connection,
Session.Close; deadlock counterexample replayed on the real refreshDebouncer) + randomized Session
runs validated by TLC (Trace_PoolMon.tla)."""
import json, os, re, collections, concurrent.futures as cf
import vf

TRIGGERS = ("f1", "f2", "f3")


def _key(p):
    return json.dumps(p, sort_keys=True, separators=(",", ":"))


# ------------------------------------------------------------------ Pool: edges -> schedules

def _auto_enabled(p):
    return (any(v == "end" for v in p["fpc"].values()) or len(p["pend"]) > 0 or
            any(v == "start" for f, v in p["fpc"].items() if f.startswith("h")) or
            any(v == "closing" for v in p["kpc"].values()))


def _cpc(p):
    c = p["cpc"]
    if isinstance(c, list):
        return {i + 1: v for i, v in enumerate(c)}
    return {int(k): v for k, v in c.items()}


def _command(a, b, fails):
    """The gate-scheduler command that performs the controlled model step a -> b."""
    for f, v in a["fpc"].items():
        w = b["fpc"][f]
        if v == "idle" and w in ("gate", "done") and not f.startswith("h"):
            return dict(cmd="fill", f=f, c=0, h="")
        if v == "gate" and w != "gate":
            return dict(cmd="recheck", f=f, c=0, h="")
    ca, cb = _cpc(a), _cpc(b)
    for c, v in ca.items():
        if v == "dial" and cb[c] == "connected":
            return dict(cmd="dial_ok", f="", c=c, h="")
        if v == "dial" and cb[c] == "done":
            return dict(cmd="dial_fail", f="", c=c, h="")
        if v == "connected" and cb[c] == "done":
            return dict(cmd="add", f="", c=c, h="")
    gone = set(a["open"]) - set(b["open"])
    newp = set(b["pend"]) - set(a["pend"])
    if gone and gone == newp:
        return dict(cmd="kill", f="", c=sorted(gone)[0], h="")
    for k, v in a["kpc"].items():
        if v == "idle" and b["kpc"][k] != "idle":
            return dict(cmd="close", f=k, c=0, h="")
    return None


def _expect(p):
    cp = _cpc(p)
    return dict(conns=sorted(p["conns"]), filling=p["filling"], closed=p["closed"], open=sorted(p["open"]),
                gate=sorted(f for f, v in p["fpc"].items() if v == "gate"),
                ndial=sum(1 for v in cp.values() if v == "dial"),
                connected=sorted(c for c, v in cp.items() if v == "connected"))


class PoolGraph:
    def __init__(self, init, edges):
        self.ids, self.nodes = {}, []
        self.out = collections.defaultdict(list)
        self.fails = {}
        self.i0 = self.nid(init)
        seen = set()
        for e in edges:
            a, b = self.nid(e["from"]), self.nid(e["to"])
            if a == b or (a, b) in seen:
                continue
            seen.add((a, b))
            self.out[a].append(b)
            self.fails[(a, b)] = e.get("fails", 0)
        self.nedges = len(seen)

    def nid(self, p):
        k = _key(p)
        if k not in self.ids:
            self.ids[k] = len(self.nodes)
            self.nodes.append(p)
        return self.ids[k]

    def macro(self):
        """Contract the steps no gate can hold back: macro edge = one controlled step + the chain
        of auto steps that follows.  Returns {stable node: [(target stable node, command, chain)]}."""
        auto = [_auto_enabled(p) for p in self.nodes]
        m = collections.defaultdict(list)
        for a in range(len(self.nodes)):
            if auto[a]:
                continue
            for b in self.out[a]:
                cmd = _command(self.nodes[a], self.nodes[b], self.fails[(a, b)])
                if cmd is None:
                    raise vf.Inconclusive("edge without a recognisable command: %s -> %s" % (self.nodes[a], self.nodes[b]))
                chain = [a, b]
                x = b
                while auto[x]:
                    nx = self.out[x]
                    if len(nx) != 1:
                        raise vf.Inconclusive("auto chain is not deterministic at %s" % (self.nodes[x],))
                    x = nx[0]
                    chain.append(x)
                if cmd["cmd"] == "kill":
                    for f, v in self.nodes[a]["fpc"].items():
                        if f.startswith("h") and v == "idle" and self.nodes[x]["fpc"][f] != "idle":
                            cmd["h"] = f
                m[a].append((x, cmd, chain))
        return m


def path_cover(i0, m):
    """Paths from the initial node that together traverse every macro edge."""
    parent = {i0: None}
    q = collections.deque([i0])
    while q:
        x = q.popleft()
        for k, (y, cmd, ch) in enumerate(m.get(x, [])):
            if y not in parent:
                parent[y] = (x, k)
                q.append(y)
    uncovered = set((x, k) for x in m for k in range(len(m[x])))
    total = len(uncovered)
    paths = []
    for (a, k) in sorted(uncovered):
        if (a, k) not in uncovered:
            continue
        pre = []
        x = a
        while parent.get(x) is not None:
            px, pk = parent[x]
            pre.append((px, pk))
            x = px
        pre.reverse()
        path = pre + [(a, k)]
        for e in path:
            uncovered.discard(e)
        cur = m[a][k][0]
        while True:
            nxt = [j for j in range(len(m.get(cur, []))) if (cur, j) in uncovered]
            if not nxt:
                break
            j = nxt[0]
            uncovered.discard((cur, j))
            path.append((cur, j))
            cur = m[cur][j][0]
        paths.append(path)
    return paths, total


def pool_schedules(g, size, paths=None):
    m = g.macro()
    if paths is None:
        paths, total = path_cover(g.i0, m)
    else:
        total = 0
    scheds = []
    for n, path in enumerate(paths):
        steps = []
        for (a, k) in path:
            y, cmd, chain = m[a][k]
            st = dict(cmd)
            st["exp"] = _expect(g.nodes[y])
            steps.append(st)
        scheds.append(dict(n=n, size=size, steps=steps))
    return scheds, total, m


# ------------------------------------------------------------------ Lifecycle: behaviours -> debouncer schedules

def deb_commands(a, b):
    """Harness commands for one step a -> b of the debouncer projection (MC_Lifecycle!Proj)."""
    cmds = []
    for r in sorted(a["req"]):
        if r != "hb" and a["req"][r] == "idle" and b["req"][r] in ("waiting", "closed"):
            cmds.append(dict(cmd="refresh_now", who=r))
    if b["ndeb"] > a["ndeb"]:
        cmds.append(dict(cmd="debounce", who=""))
    if a["timer"] == "armed" and b["timer"] == "fired":
        cmds.append(dict(cmd="timer_fire", who=""))
    for k in sorted(a["kpc"]):
        if a["kpc"][k] == "rs_mark" and b["kpc"][k] != "rs_mark":
            cmds.append(dict(cmd="stop_mark", who=k))
        if a["kpc"][k] == "rs_send" and b["kpc"][k] != "rs_send":
            cmds.append(dict(cmd="stop_send", who=k))
    if a["fl"] == "select" and b["fl"] == "woke":
        cmds.append(dict(cmd="flusher_wake", who=""))
    if a["fl"] == "woke" and b["fl"] in ("exited", "refreshing"):
        cmds.append(dict(cmd="flusher_lock", who=""))
    if a["fl"] == "refreshing" and b["fl"] == "select":
        cmds.append(dict(cmd="refresh_done", who=""))
    return cmds


def deb_proj_of_state(s):
    """The debouncer projection of a full Lifecycle state (as dumped by -dumpTrace json)."""
    return dict(stopped=s["rdStopped"], hasbc=s["rdHasBc"], bc=s["rdBc"], now=s["rdNow"], timer=s["rdTimer"],
                quit=s["rdQuit"], done=s["rdDone"], fl=s["flPc"], req=s["reqPc"], kpc=s["kpc"], ndeb=s["nDebounce"])


def deb_schedule(states, n, origin, final_blocked=True):
    steps = []
    for a, b in zip(states, states[1:]):
        steps += deb_commands(a, b)
    if final_blocked and states:
        for k in sorted(states[-1]["kpc"]):
            if states[-1]["kpc"][k] == "rs_send":
                steps.append(dict(cmd="stop_send", who=k))
    return dict(n=n, origin=origin, steps=steps)


def walks_from_sim(init, edges):
    k0 = _key(init)
    walks, cur = [], None
    for e in edges:
        kf = _key(e["from"])
        if kf == k0 and (cur is None or _key(cur[-1]) != k0 or len(cur) > 1):
            if cur and len(cur) > 1:
                walks.append(cur)
            cur = [e["from"]]
        if cur is None:
            continue
        if kf != _key(cur[-1]):
            cur = None
            continue
        if kf != _key(e["to"]):
            cur.append(e["to"])
    if cur and len(cur) > 1:
        walks.append(cur)
    return walks
