"""C17 - pools stay within bounds; a session is safe to share and always closes.
Pool.tla (graph walk on a real hostConnPool) + Lifecycle.tla (debouncers, control connection,
Session.Close; deadlock counterexample replayed on the real refreshDebouncer) + randomized Session
runs validated by TLC (Trace_PoolMon.tla)."""
import json, os, re, collections, concurrent.futures as cf
import vf

TRIGGERS = ("f1", "f2", "f3")


def _key(p):
    return json.dumps(p, sort_keys=True, separators=(",", ":"))


# ------------------------------------------------------------------ Pool: edges -> schedules

def _auto_enabled(p):
    return (any(v == "end" for v in p["fpc"].values()) or len(p["pend"]) > 0 or
            any(v == "start" for f, v in p["fpc"].items() if f.startswith("h")) or
            any(v == "closing" for v in p["kpc"].values()))


def _cpc(p):
    c = p["cpc"]
    if isinstance(c, list):
        return {i + 1: v for i, v in enumerate(c)}
    return {int(k): v for k, v in c.items()}


def _command(a, b, fails):
    """The gate-scheduler command that performs the controlled model step a -> b."""
    for f, v in a["fpc"].items():
        w = b["fpc"][f]
        if v == "idle" and w in ("gate", "done") and not f.startswith("h"):
            return dict(cmd="fill", f=f, c=0, h="")
        if v == "gate" and w != "gate":
            return dict(cmd="recheck", f=f, c=0, h="")
    ca, cb = _cpc(a), _cpc(b)
    for c, v in ca.items():
        if v == "dial" and cb[c] == "connected":
            return dict(cmd="dial_ok", f="", c=c, h="")
        if v == "dial" and cb[c] == "done":
            return dict(cmd="dial_fail", f="", c=c, h="")
        if v == "connected" and cb[c] == "done":
            return dict(cmd="add", f="", c=c, h="")
    gone = set(a["open"]) - set(b["open"])
    newp = set(b["pend"]) - set(a["pend"])
    if gone and gone == newp:
        return dict(cmd="kill", f="", c=sorted(gone)[0], h="")
    for k, v in a["kpc"].items():
        if v == "idle" and b["kpc"][k] != "idle":
            return dict(cmd="close", f=k, c=0, h="")
    return None


def _expect(p):
    cp = _cpc(p)
    return dict(conns=sorted(p["conns"]), filling=p["filling"], closed=p["closed"], open=sorted(p["open"]),
                gate=sorted(f for f, v in p["fpc"].items() if v == "gate"),
                ndial=sum(1 for v in cp.values() if v == "dial"),
                connected=sorted(c for c, v in cp.items() if v == "connected"))


class PoolGraph:
    def __init__(self, init, edges):
        self.ids, self.nodes = {}, []
        self.out = collections.defaultdict(list)
        self.fails = {}
        self.i0 = self.nid(init)
        seen = set()
        for e in edges:
            a, b = self.nid(e["from"]), self.nid(e["to"])
            if a == b or (a, b) in seen:
                continue
            seen.add((a, b))
            self.out[a].append(b)
            self.fails[(a, b)] = e.get("fails", 0)
        self.nedges = len(seen)

    def nid(self, p):
        k = _key(p)
        if k not in self.ids:
            self.ids[k] = len(self.nodes)
            self.nodes.append(p)
        return self.ids[k]

    def macro(self):
        """Contract the steps no gate can hold back: macro edge = one controlled step + the chain
        of auto steps that follows.  Returns {stable node: [(target stable node, command, chain)]}."""
        auto = [_auto_enabled(p) for p in self.nodes]
        m = collections.defaultdict(list)
        for a in range(len(self.nodes)):
            if auto[a]:
                continue
            for b in self.out[a]:
                cmd = _command(self.nodes[a], self.nodes[b], self.fails[(a, b)])
                if cmd is None:
                    raise vf.Inconclusive("edge without a recognisable command: %s -> %s" % (self.nodes[a], self.nodes[b]))
                chain = [a, b]
                x = b
                while auto[x]:
                    nx = self.out[x]
                    if len(nx) > 1:
                        raise vf.Inconclusive("auto chain is not deterministic at %s" % (self.nodes[x],))
                    if not nx:
                        x = None      # a simulation walk ended here: the gate-level step is incomplete
                        break
                    x = nx[0]
                    chain.append(x)
                if x is None:
                    continue
                if cmd["cmd"] == "kill":
                    for f, v in self.nodes[a]["fpc"].items():
                        if f.startswith("h") and v == "idle" and self.nodes[x]["fpc"][f] != "idle":
                            cmd["h"] = f
                m[a].append((x, cmd, chain))
        return m


def path_cover(i0, m):
    """Paths from the initial node that together traverse every macro edge."""
    parent = {i0: None}
    q = collections.deque([i0])
    while q:
        x = q.popleft()
        for k, (y, cmd, ch) in enumerate(m.get(x, [])):
            if y not in parent:
                parent[y] = (x, k)
                q.append(y)
    uncovered = set((x, k) for x in m for k in range(len(m[x])))
    total = len(uncovered)
    paths = []
    for (a, k) in sorted(uncovered):
        if (a, k) not in uncovered:
            continue
        pre = []
        x = a
        while parent.get(x) is not None:
            px, pk = parent[x]
            pre.append((px, pk))
            x = px
        pre.reverse()
        path = pre + [(a, k)]
        for e in path:
            uncovered.discard(e)
        cur = m[a][k][0]
        while True:
            nxt = [j for j in range(len(m.get(cur, []))) if (cur, j) in uncovered]
            if not nxt:
                break
            j = nxt[0]
            uncovered.discard((cur, j))
            path.append((cur, j))
            cur = m[cur][j][0]
        paths.append(path)
    return paths, total


def pool_schedules(g, size, paths=None):
    m = g.macro()
    if paths is None:
        paths, total = path_cover(g.i0, m)
    else:
        total = 0
    scheds = []
    for n, path in enumerate(paths):
        steps = []
        for (a, k) in path:
            y, cmd, chain = m[a][k]
            st = dict(cmd)
            st["exp"] = _expect(g.nodes[y])
            steps.append(st)
        scheds.append(dict(n=n, size=size, steps=steps))
    return scheds, total, m


# ------------------------------------------------------------------ Lifecycle: behaviours -> debouncer schedules

def deb_commands(a, b):
    """Harness commands for one step a -> b of the debouncer projection (MC_Lifecycle!Proj)."""
    cmds = []
    for r in sorted(a["req"]):
        if r != "hb" and a["req"][r] == "idle" and b["req"][r] in ("waiting", "closed"):
            cmds.append(dict(cmd="refresh_now", who=r))
    if b["ndeb"] > a["ndeb"]:
        cmds.append(dict(cmd="debounce", who=""))
    if a["timer"] == "armed" and b["timer"] == "fired":
        cmds.append(dict(cmd="timer_fire", who=""))
    for k in sorted(a["kpc"]):
        if a["kpc"][k] == "rs_mark" and b["kpc"][k] != "rs_mark":
            cmds.append(dict(cmd="stop_mark", who=k))
        if a["kpc"][k] == "rs_send" and b["kpc"][k] != "rs_send":
            cmds.append(dict(cmd="stop_send", who=k))
    if a["fl"] == "select" and b["fl"] == "woke":
        cmds.append(dict(cmd="flusher_wake", who=""))
    if a["fl"] == "woke" and b["fl"] in ("exited", "refreshing"):
        cmds.append(dict(cmd="flusher_lock", who=""))
    if a["fl"] == "refreshing" and b["fl"] == "select":
        cmds.append(dict(cmd="refresh_done", who=""))
    return cmds


def ev_schedule(states):
    """Harness commands for the node-event debouncer part of a Lifecycle behaviour (full states from -dumpTrace json)."""
    cmds = []
    for a, b in zip(states, states[1:]):
        if a["debPc"] == "idle" and b["debPc"] == "locked":
            cmds.append("deb_lock")
        if any(a["kpc"][k] == "idle" and b["kpc"][k] != "idle" for k in a["kpc"]) and "close_start" not in cmds:
            cmds.append("close_start")
        qa, qb = list(a["evQ"]["node"]), list(b["evQ"]["node"])
        if ("stop" in qb and "stop" not in qa) or (a["evMu"]["node"] != "stop" and b["evMu"]["node"] == "stop" and "stop" not in qa):
            cmds.append("stop_queued")
        if a["evTimer"]["node"] == "armed" and b["evTimer"]["node"] == "fired":
            cmds.append("timer_fire")
        if ("fl" in qb and "fl" not in qa) or (a["evMu"]["node"] != "fl" and b["evMu"]["node"] == "fl" and "fl" not in qa):
            cmds.append("flusher_queued")
        if a["debPc"] == "locked" and b["debPc"] == "idle":
            cmds.append("deb_unlock")
    return cmds


def deb_proj_of_state(s):
    """The debouncer projection of a full Lifecycle state (as dumped by -dumpTrace json)."""
    return dict(stopped=s["rdStopped"], hasbc=s["rdHasBc"], bc=s["rdBc"], now=s["rdNow"], timer=s["rdTimer"],
                quit=s["rdQuit"], done=s["rdDone"], fl=s["flPc"], req=s["reqPc"], kpc=s["kpc"], ndeb=s["nDebounce"])


def deb_schedule(states, n, origin, final_blocked=True):
    steps = []
    for a, b in zip(states, states[1:]):
        steps += deb_commands(a, b)
    if final_blocked and states:
        for k in sorted(states[-1]["kpc"]):
            if states[-1]["kpc"][k] == "rs_send":
                steps.append(dict(cmd="stop_send", who=k))
    return dict(n=n, origin=origin, steps=steps)


def walks_from_sim(init, edges):
    k0 = _key(init)
    walks, cur = [], None
    for e in edges:
        kf = _key(e["from"])
        if kf == k0 and (cur is None or _key(cur[-1]) != k0 or len(cur) > 1):
            if cur and len(cur) > 1:
                walks.append(cur)
            cur = [e["from"]]
        if cur is None:
            continue
        if kf != _key(cur[-1]):
            cur = None
            continue
        if kf != _key(e["to"]):
            cur.append(e["to"])
    if cur and len(cur) > 1:
        walks.append(cur)
    return walks


# ------------------------------------------------------------------ verdict tables

POOL_KEYS = {
    "ReportedNotInPool_AddedDead": ("pool-dead-conn-added",
                                    "a connection that died between its handshake and connect()'s critical section was appended "
                                    "to the pool after its error callback had run: reported closed, still in the pool, never replaced"),
    "ReportedNotInPool_NotRemoved": ("pool-dead-conn-not-removed", "a pooled connection reported closed was not removed from its pool"),
    "SizeBound": ("pool-size-exceeded", "a pool held more connections than configured"),
    "OneFiller": ("pool-two-fillers", "two fillers were past the re-check of one pool at the same time"),
    "ClosedEmpty": ("pool-conn-in-closed-pool", "a closed pool held a connection"),
    "NoLeakAfterClose": ("pool-conn-leak-after-close", "a connection opened for a pool stayed open after the pool was closed"),
    "NoStray": ("pool-stray-conn", "an open connection is neither in its pool nor on its way in or out"),
    "PoolConnsAlive": ("pool-closed-conn-kept", "a pool kept a connection whose driver end is closed"),
    "FillAfterClose": ("pool-fill-after-close", "a fill started on a closed pool"),
    "CloseTwice": ("pool-close-twice", "a pool was closed twice"),
    "HostBound": ("host-conns-exceed-numconns", "the dialer sees more open connections to one host than NumConns at quiescence "
                                                 "(two pools for one host, or a pool above its size)"),
    "NoOrphanPool": ("host-pool-orphaned", "connections to a host stay open although the host's pool is no longer in the session's map "
                                           "(a pool that removeHost / Session.Close can no longer reach)"),
    "Replenished": ("pool-not-replenished", "an open pool stayed below its size although queries kept arriving (Pick) and connects succeed: a "
                                            "connection lost during a fill / a partly failed fill is never made up for"),
    "FillEnds": ("pool-filling-never-ends", "pool.filling stayed true after the fill had finished: every later fill() returns at once, "
                                            "a lost connection is never replaced"),
    "NoSelfDeadlock": ("pool-lock-deadlock", "a pool method waits for pool.mu while it holds it (closing a connection whose socket "
                                             "Close() reports an error re-enters hostConnPool.HandleError); Close/Pick/Size of the pool never return again"),
}

DEFECT_EXHIBITS = [
    # cfg, expected, what it shows
    ("Lifecycle_x_heartbeat.cfg", "AllClosedAfterClose", "heartBeat scheduled after controlConn.close starts and reconnects after Close"),
    ("Lifecycle_x_latepool.cfg", "AllClosedAfterClose", "a pool created by a refresh after policyConnPool.Close is never closed"),
    ("Lifecycle_x_selfwait.cfg", "deadlock", "reconnect run inline on the refresh flusher waits for the flusher itself"),
    ("Lifecycle_x_reconnwin.cfg", "AllClosedAfterClose", "a control connection installed by reconnect after controlConn.close is never closed"),
    ("Lifecycle_x_statelock.cfg", "deadlock", "Close keeping sessionStateMu deadlocks with a heartbeat reconnect whose setupConn reads it"),
    ("Lifecycle_x_quitnonblock.cfg", "temporal", "a non-blocking quit signal is lost when the heartbeat goroutine is busy: it never exits"),
    ("Lifecycle_x_evstoplock.cfg", "deadlock", "eventDebouncer.stop holding e.mu over the quit hand-off deadlocks with a flusher woken by its timer"),
    ("Lifecycle_x_evsynccb.cfg", "temporal", "an event handler run by the flusher under e.mu makes Session.Close wait for the handler"),
    ("Lifecycle_x_dropbc.cfg", "deadlock", "a flusher that drops the pending broadcaster on stop leaves its listeners waiting"),
]

POOL_EXHIBITS = [
    # Pick() that asks for a fill only when the pool is empty: a pool that lost a connection during a fill stays short
    ("MC_Pool_x_pickempty.cfg", "temporal"),
    # connectMany that returns at the first failure: a straggler lands after the next fill -> more than Size connections
    ("MC_Pool_x_nojoin.cfg", "SizeBound"),
    # a socket Close() error re-enters HandleError: closing under pool.mu must be exhibited as a self-deadlock
    ("MC_Pool_x_latelock.cfg", "NoSelfDeadlock"),
    ("MC_Pool_x_closelock.cfg", "NoSelfDeadlock"),
]

DEB_GOALS = ["StopBusyPending", "StopBusyServedAndPending", "StopBusyTwoPending", "StopWokePending", "StopSelectPending",
             "RequestAfterStopBusy", "RequestAfterExit"]


def _settled(r):
    """TLC gave an answer about the model (finished, or reported a violation / deadlock) - as opposed to dying on the way."""
    return r.ok or bool(r.violated) or bool(re.search(r"Temporal propert(y|ies) .*violated", r.out))


def _tlc(ctx, module, cfg, tries=3, **kw):
    r = None
    for attempt in range(tries):
        r = vf.run_tlc(ctx, module, cfg, **kw)
        if _settled(r):
            return r
        ctx.log("TLC run %s %s gave no answer (timeout=%s error=%s): attempt %d of %d" % (module, cfg, r.timeout, (r.error or "")[:120], attempt + 1, tries))
    return r


def _monitor(ctx, path, name):
    r = _tlc(ctx, "Trace_PoolMon", "Trace_PoolMon.cfg", workers=1, heap="2g", timeout=600,
                   env={"VF_TRACE": path}, deadlock=False, name=name, quiet=True)
    if not r.ok:
        raise vf.Inconclusive("monitor run failed on %s: %s\n%s" % (name, r.error or r.violated, r.out[-1500:]))
    done = vf.tlc_printed(r.out, "MONDONE")
    if not done:
        raise vf.Inconclusive("monitor did not reach the end of %s" % name)
    return vf.tlc_printed(r.out, "MONVIOL"), vf.tlc_printed(r.out, "MONDRIFT"), done[0]["lines"], r


def _race_reports(out):
    """(function, is_harness_only) for every data race reported by the race detector."""
    res = []
    for blk in re.findall(r"WARNING: DATA RACE\n(.*?)\n==================", out, re.S):
        funcs = re.findall(r"^  (github\.com/gocql/gocql\S*?)\(", blk, re.M)
        # the two accessing frames are the first frame after "Read at"/"Write at"/"Previous ..." lines
        acc = re.findall(r"(?:Read|Write|Previous read|Previous write|Atomic read|Atomic write|Previous atomic read|Previous atomic write)"
                         r" at [^\n]*\n  (\S+)\(\)", blk)
        drv = [f for f in acc if "gocql" in f and not re.search(r"gocql\.(\(\*)?(vf|Vf|TestVf)", f)]
        res.append((acc, drv, blk))
    return res


def run(ctx):
    quick = ctx.tier == "quick"
    ctx.level = "model_checking"
    W = int(os.environ.get("VF_TLC_WORKERS", "0")) or None
    states = trans = 0
    configs = []

    def note(r, cfg):
        nonlocal states, trans
        states += r.distinct
        trans += r.generated
        configs.append(dict(cfg=cfg, distinct=r.distinct, generated=r.generated, depth=r.depth, wall=round(r.wall, 1)))

    pool = cf.ThreadPoolExecutor(6)

    # ---- 1. model passes (run in the background while the harness is built and driven)
    def must(module, cfg, **kw):
        r = _tlc(ctx, module, cfg, **kw)
        return r, cfg

    bg = []
    bg.append(pool.submit(must, "MC_Pool", "MC_Pool_quick.cfg", workers=W or 4, timeout=600, extra=["-lncheck", "final"]))
    bg.append(pool.submit(must, "MC_Pool", "MC_Pool_pick.cfg", workers=W or 2, timeout=600, extra=["-lncheck", "final"]))
    bg.append(pool.submit(must, "MC_Pool", "MC_Pool_size1.cfg", workers=W or 2, timeout=600, extra=["-lncheck", "final"]))
    bg.append(pool.submit(must, "Lifecycle", "Lifecycle_fixed.cfg", workers=W or 6, timeout=600))
    bg.append(pool.submit(must, "Lifecycle", "Lifecycle_fixed_live.cfg", workers=W or 4, timeout=900, extra=["-lncheck", "final"]))
    bg.append(pool.submit(must, "Lifecycle", "Lifecycle_deb_live.cfg", workers=W or 2, timeout=600, extra=["-lncheck", "final"]))
    if not quick:
        bg.append(pool.submit(must, "MC_Pool", "MC_Pool_thorough.cfg", workers=W or 8, timeout=1500, heap="8g", extra=["-lncheck", "final"]))
        bg.append(pool.submit(must, "Lifecycle", "Lifecycle_fixed_live2.cfg", workers=W or 4, timeout=1500, heap="8g", extra=["-lncheck", "final"]))
    exh = [pool.submit(must, "Lifecycle", c, workers=2, timeout=300, extra=["-noGenerateSpecTE"]) for c, _, _ in DEFECT_EXHIBITS]
    bg.append(pool.submit(must, "PolicyPool", "PolicyPool_quick.cfg", workers=2, timeout=300, extra=["-lncheck", "final"]))
    exh_policy = pool.submit(must, "PolicyPool", "PolicyPool_x_racyadd.cfg", workers=2, timeout=300, extra=["-noGenerateSpecTE"])
    exh_pool = pool.submit(must, "MC_Pool", "MC_Pool_defect.cfg", workers=2, timeout=300, extra=["-noGenerateSpecTE"])
    exh_pool2 = [pool.submit(must, "MC_Pool", c, workers=2, timeout=300, extra=["-noGenerateSpecTE"]) for c, _ in POOL_EXHIBITS]

    # the deadlock TLC finds in the hand-shake of the code as it is today -> gate schedule
    cex_path = os.path.join(ctx.tmp, "cex_stop.json")
    rd = _tlc(ctx, "Lifecycle", "Lifecycle_defect.cfg", workers=2, timeout=300,
                    extra=["-noGenerateSpecTE", "-dumpTrace", "json", cex_path])
    if rd.violated != "deadlock" or not os.path.exists(cex_path):
        raise vf.Inconclusive("Lifecycle.tla with Defect_StopHandshake = TRUE did not produce the deadlock counterexample "
                              "(violated=%s error=%s)" % (rd.violated, rd.error))
    note(rd, "Lifecycle_defect")
    cex_states = [deb_proj_of_state(s[1]) for s in json.load(open(cex_path))["counterexample"]["state"]]
    cex_sched = deb_schedule(cex_states, 0, "cex")
    ctx.log("deadlock counterexample (%d states) -> schedule: %s" % (
        len(cex_states), " ".join("%s%s" % (s["cmd"], (":" + s["who"]) if s["who"] else "") for s in cex_sched["steps"])))

    # the deadlock of eventDebouncer.stop() holding e.mu, in the sub-graph whose steps can be forced without a hook between the
    # flusher's select and its Lock (EvEager): -> commands for the real eventDebouncer / the Session's node-event debouncer
    evcex = os.path.join(ctx.tmp, "cex_evstop.json")
    rev = _tlc(ctx, "Lifecycle", "Lifecycle_x_evstoplock_eager.cfg", workers=1, timeout=300,
                     extra=["-noGenerateSpecTE", "-dumpTrace", "json", evcex])
    if rev.violated != "deadlock" or not os.path.exists(evcex):
        raise vf.Inconclusive("Lifecycle.tla with Defect_EvStopUnderLock = TRUE (EvEager) did not produce the deadlock counterexample "
                              "(violated=%s error=%s)" % (rev.violated, rev.error))
    note(rev, "Lifecycle_x_evstoplock_eager")
    ev_cmds = ev_schedule([x[1] for x in json.load(open(evcex))["counterexample"]["state"]])
    if "deb_lock" not in ev_cmds or "timer_fire" not in ev_cmds or "deb_unlock" not in ev_cmds:
        raise vf.Inconclusive("the event-debouncer counterexample has no forceable schedule any more: %s" % ev_cmds)
    evsp = os.path.join(ctx.tmp, "ev_schedule.json")
    json.dump(ev_cmds, open(evsp, "w"))
    ctx.log("event-debouncer deadlock counterexample (%d states) -> schedule: %s" % (len(json.load(open(evcex))["counterexample"]["state"]), " ".join(ev_cmds)))

    # simulation walks of the repaired debouncer protocol
    nsim = 60 if quick else 600
    rs = _tlc(ctx, "MC_Lifecycle", "MC_Lifecycle_deb.cfg", workers=1, timeout=600, simulate="num=%d" % nsim, depth=40,
                    deadlock=False, extra=["-seed", str(ctx.seed), "-noGenerateSpecTE"], name="deb_sim")
    if not rs.ok:
        raise vf.Inconclusive("debouncer simulation failed: %s\n%s" % (rs.error or rs.violated, rs.out[-1500:]))
    dinit = vf.tlc_printed(rs.out, "INIT")
    dedges = vf.tlc_printed(rs.out, "EDGE")
    if not dinit or not dedges:
        raise vf.Inconclusive("debouncer simulation produced no edges")
    walks = walks_from_sim(dinit[0], dedges)
    deb_scheds = [cex_sched] + [deb_schedule(w, i + 1, "sim", final_blocked=False) for i, w in enumerate(walks)]
    # coverage goals: TLC produces a behaviour of the repaired protocol that reaches each named situation
    # (stop while refreshFn runs with listeners pending, requests after stop, ...)
    def goal(gname):
        gp = os.path.join(ctx.tmp, "goal_%s.json" % gname)
        r = _tlc(ctx, "MC_Lifecycle", "MC_Lifecycle_goal_%s.cfg" % gname, workers=1, timeout=300, deadlock=False,
                       extra=["-noGenerateSpecTE", "-dumpTrace", "json", gp], name="goal_" + gname, quiet=True)
        return gname, r, gp
    for gname, r, gp in pool.map(goal, DEB_GOALS):
        if r.violated != "Goal_" + gname or not os.path.exists(gp):
            raise vf.Inconclusive("Lifecycle.tla cannot reach the situation %s any more (violated=%s error=%s)" % (gname, r.violated, r.error))
        note(r, "MC_Lifecycle_goal_" + gname)
        gst = [deb_proj_of_state(x[1]) for x in json.load(open(gp))["counterexample"]["state"]]
        deb_scheds.append(deb_schedule(gst, 100000 + len(deb_scheds), "goal:" + gname, final_blocked=False))
    dsp = os.path.join(ctx.tmp, "deb_schedules.ndjson")
    vf.write_ndjson(dsp, deb_scheds)
    ctx.log("debouncer behaviours: 1 counterexample + %d simulation walks + %d goal-directed behaviours" % (len(walks), len(DEB_GOALS)))

    # ---- 2. Pool: every edge of the eager graph -> schedules
    re_ = _tlc(ctx, "MC_Pool", "MC_Pool_edges.cfg", workers=1, timeout=600, deadlock=False, name="pool_edges",
                     extra=["-noGenerateSpecTE"])
    if not re_.ok:
        raise vf.Inconclusive("pool edge dump failed: %s\n%s" % (re_.error or re_.violated, re_.out[-2000:]))
    pinit = vf.tlc_printed(re_.out, "INIT")
    pedges = vf.tlc_printed(re_.out, "EDGE")
    if not pinit or not pedges:
        raise vf.Inconclusive("pool edge dump produced nothing")
    g = PoolGraph(pinit[0], pedges)
    scheds, nmacro, _ = pool_schedules(g, 2)
    # sizes 1 and 3 as well (size 1: the only connection dies -> refilled; size 3: one trigger, connectMany of 2)
    extra_graphs = []
    for size, cfg in ((1, "MC_Pool_edges1.cfg"), (3, "MC_Pool_edges3.cfg" if quick else "MC_Pool_edges3full.cfg")):
        rx = _tlc(ctx, "MC_Pool", cfg, workers=1, timeout=600, deadlock=False, name="pool_edges%d" % size,
                        extra=["-noGenerateSpecTE"])
        if not rx.ok:
            raise vf.Inconclusive("pool edge dump (size %d) failed: %s" % (size, rx.error or rx.violated))
        gx = PoolGraph(vf.tlc_printed(rx.out, "INIT")[0], vf.tlc_printed(rx.out, "EDGE"))
        sx, nx, _ = pool_schedules(gx, size)
        for s_ in sx:
            s_["n"] += len(scheds)
        scheds += sx
        nmacro += nx
        extra_graphs.append(dict(size=size, states=len(gx.nodes), edges=gx.nedges, gate_level_edges=nx, schedules=len(sx)))
        note(rx, cfg)
    n_graph_scheds = len(scheds)
    ctx.log("pool graph walk: %d states, %d edges, %d gate-level edges, %d schedules, %d steps" % (
        len(g.nodes), g.nedges, nmacro, len(scheds), sum(len(s["steps"]) for s in scheds)))
    nwalk = 0
    if not quick:
        rw = _tlc(ctx, "MC_Pool", "MC_Pool_sim.cfg", workers=1, timeout=900, simulate="num=400", depth=60, deadlock=False,
                        extra=["-seed", str(ctx.seed), "-noGenerateSpecTE"], name="pool_sim")
        if not rw.ok:
            raise vf.Inconclusive("pool simulation failed: %s" % (rw.error or rw.violated))
        wi, we = vf.tlc_printed(rw.out, "INIT"), vf.tlc_printed(rw.out, "EDGE")
        g3 = PoolGraph(wi[0], we)
        m3 = g3.macro()
        # each walk as a path of macro edges
        paths = []
        for w in walks_from_sim(wi[0], we):
            ids = [g3.nid(p) for p in w]
            path, i = [], 0
            while i < len(ids) - 1:
                a = ids[i]
                hit = None
                for k, (y, cmd, chain) in enumerate(m3.get(a, [])):
                    if ids[i:i + len(chain)] == chain:
                        hit = (k, len(chain))
                        break
                if hit is None:
                    break
                path.append((a, hit[0]))
                i += hit[1] - 1
            if path:
                paths.append(path)
        s3, _, _ = pool_schedules(g3, 3, paths)
        for s in s3:
            s["n"] += len(scheds)
        nwalk = len(s3)
        scheds += s3
        ctx.log("pool simulation walks (size 3, 3 triggers, 2 kills): %d" % nwalk)
    psp = os.path.join(ctx.tmp, "pool_schedules.ndjson")
    vf.write_ndjson(psp, scheds)

    # ---- 3. build and drive the real code (four independent processes)
    binary = vf.build_gotest(ctx, ".", ["common", "c17"])
    ptr = os.path.join(ctx.tmp, "pool_traces.ndjson")
    dtr = os.path.join(ctx.tmp, "deb_results.ndjson")
    scn = os.path.join(ctx.tmp, "scenarios.ndjson")
    str_ = os.path.join(ctx.tmp, "session_traces.ndjson")
    nruns = 40 if quick else 400
    jobs = {
        "pool": pool.submit(vf.run_gotest, ctx, binary, "^TestVfC17PoolReplay$",
                            env={"VF_SCHEDULES": psp, "VF_TRACES": ptr, "VF_PAR": 8 if quick else 12}, timeout=900, check=False),
        "deb": pool.submit(vf.run_gotest, ctx, binary, "^TestVfC17Debouncer$",
                           env={"VF_SCHEDULES": dsp, "VF_TRACES": dtr, "VF_PAR": 8, "VF_WATCHDOG_MS": 1500}, timeout=900, check=False),
        "scen": pool.submit(vf.run_gotest, ctx, binary, "^TestVfC17Scenarios$", env={"VF_TRACES": scn, "VF_EV_SCHEDULE": evsp},
                            timeout=900, check=False),
        "scen2": pool.submit(vf.run_gotest, ctx, binary, "^TestVfC17ScenariosIsolated$", env={"VF_TRACES": scn + ".isolated"},
                             timeout=900, check=False),
        "policy": pool.submit(vf.run_gotest, ctx, binary, "^TestVfC17PolicyPool$",
                              env={"VF_TRACES": os.path.join(ctx.tmp, "policy_traces.ndjson"), "VF_TRIALS": 90 if quick else 300},
                              timeout=600, check=False),
        "sess": pool.submit(vf.run_gotest, ctx, binary, "^TestVfC17Sessions$",
                            env={"VF_TRACES": str_, "VF_NRUNS": nruns, "VF_BATCH": 8}, timeout=900, check=False),
    }
    outs = {}
    crashed = {}
    for k, f in jobs.items():
        rc, out = f.result()
        outs[k] = out
        if rc in (124, 137):
            raise vf.Inconclusive("driver %s timed out:\n%s" % (k, out[-3000:]))
        if "VFSUMMARY" not in out:
            pm = re.search(r"^(panic: [^\n]*|fatal error: [^\n]*)\n(.*)", out, re.M | re.S)
            if pm and "test timed out" not in pm.group(1):
                # the process died: a panic in driver code while a Session was used / closed
                frames = re.findall(r"^github\.com/gocql/gocql\.(\S+?)\(", pm.group(2)[:6000], re.M)
                drv = [f_ for f_ in frames if not re.match(r"(\(\*)?(vf|Vf|TestVf)", f_)]
                if drv:
                    fn = drv[0].replace("(*", "").replace(")", "")
                    ctx.violation("panic:" + fn, "the process died in driver code (%s) while the %s driver used / closed a Session: %s" % (
                        fn, k, pm.group(1)), out[-6000:])
                    crashed[k] = True
                    continue
            raise vf.Inconclusive("driver %s gave no summary (rc=%s):\n%s" % (k, rc, out[-3000:]))
    if crashed:
        ctx.log("driver process(es) died in driver code: %s" % sorted(crashed))
        ctx.cov = dict(states=rd.distinct, transitions=rd.generated, traces_validated_against_impl=0,
                       samples=[dict(kind="crash", drivers=sorted(crashed))])
        pool.shutdown(wait=False)
        return

    # ---- 4a. pool replay: conformance + property invariants evaluated by TLC on the real traces
    psum = json.loads(re.search(r"^VFSUMMARY (.*)$", outs["pool"], re.M).group(1))
    ctx.log("pool replay: %d schedules, %d steps, %d diverged, %d harness errors" % (
        psum["Schedules"], psum["Steps"], psum["Diverged"], psum["Errors"]))
    unsettled = []   # observations without a verdict (not settled before the hard cap, set-up problems): the run is
                     # INCONCLUSIVE when nothing else decided it - never a violation
    if psum["Errors"]:
        unsettled.append("pool replay: %d schedule(s) without a verdict (first: %s)" % (psum["Errors"], psum["FirstError"]))
    if psum.get("Skipped"):
        ctx.log("pool replay: %d schedules skipped after the first wall-clock verdicts" % psum["Skipped"])
    pviol, pdrift, plines, rmon = _monitor(ctx, ptr, "mon_pool")
    note(rmon, "Trace_PoolMon(pool replay)")
    ptraces = vf.read_ndjson(ptr)
    by_sched = collections.defaultdict(list)
    for rec in ptraces:
        by_sched[rec["sched"]].append(rec)
    explained = set()
    for v in pviol:
        key, what = POOL_KEYS.get(v["kind"], ("pool-" + v["kind"], v["kind"]))
        if v["kind"] == "NoSelfDeadlock":
            key += ":" + ([r["q"] for r in by_sched[v["sched"]] if r["ev"] == "h_lock_dead"] or ["unknown"])[0]
        div = [r["q"] for r in by_sched[v["sched"]] if r["ev"] == "h_diverged"]
        ctx.violation(key, "%s (schedule %d of the Pool.tla graph walk, record %d)" % (what, v["sched"], v["k"]),
                      dict(schedule=[s for s in scheds if s["n"] == v["sched"]][:1], divergence=div, trace=by_sched[v["sched"]][-40:]))
        explained.add(v["sched"])
    diverged = set(r["sched"] for r in ptraces if r["ev"] == "h_diverged")
    unexplained = sorted(diverged - explained)
    if unexplained:
        first = [r["q"] for r in by_sched[unexplained[0]] if r["ev"] == "h_diverged"][0]
        ctx.add_drift("the real hostConnPool left Pool.tla on %d of %d schedules without breaking a property invariant "
                      "(first: schedule %d: %s)" % (len(unexplained), psum["Schedules"], unexplained[0], first))
    if pdrift:
        ctx.add_drift("pool hook arguments disagree with the monitor's count on %d records (first: %s)" % (len(pdrift), pdrift[0]))
    followed = psum["Schedules"] - len(diverged)

    # ---- 4b. debouncer behaviours
    dres = vf.read_ndjson(dtr)
    drecs = []
    for r in sorted(dres, key=lambda r: r["n"]):
        drecs.append(dict(sched=r["n"], k=0, ev="init", obj=0, a=0, size=0, closed=False, conns=[], open=[], dead=[], gor=0, q=""))
        drecs.append(dict(sched=r["n"], k=1, ev="d_end", obj=0, a=r["followed"], size=0, closed=False, conns=[], open=[], dead=[],
                          gor=0, q="hang" if r["hang"] else ("listener-stuck" if r.get("unanswered") else "ok")))
    dmp = os.path.join(ctx.tmp, "deb_mon.ndjson")
    vf.write_ndjson(dmp, drecs)
    dviol, _, _, rmon2 = _monitor(ctx, dmp, "mon_deb")
    byn = {r["n"]: r for r in dres}
    cexr = byn.get(0)
    if cexr is None:
        raise vf.Inconclusive("the counterexample schedule was not executed")
    ctx.log("debouncer: counterexample %s on the real refreshDebouncer (followed %d/%d steps%s); %d of %d simulation walks hang" % (
        "REPRODUCED" if cexr["hang"] else "not reproduced", cexr["followed"], cexr["steps"],
        (", stuck: " + cexr["stuck"]) if cexr["stuck"] else "", sum(1 for r in dres if r["hang"] and r["n"] != 0), len(dres) - 1))
    for v in dviol:
        r = byn[v["sched"]]
        if v["kind"] == "RequesterAnswered":
            ctx.violation("refresh-listener-unanswered:" + (r.get("unanswered_class") or "unknown"),
                          "refreshNow() listener(s) %s on the real refreshDebouncer were neither answered nor closed within the "
                          "watchdog although every stop() had returned (%s, behaviour %d, %s)" % (
                              ",".join(r["unanswered"]), r.get("unanswered_class"), r["n"], r["origin"]),
                          dict(schedule=[s for s in deb_scheds if s["n"] == r["n"]][:1], result={k: r[k] for k in r if k != "dump"}))
            continue
        key = "refresh-debouncer-stop-hang" if r["sig"] == "flusher-exited-before-quit" else "refresh-debouncer-stop-hang-" + (r["sig"] or "other")
        ctx.violation(key, "refreshDebouncer.stop() did not return within the watchdog on the real debouncer under the %s "
                      "(the flusher, woken for a refresh, saw `stopped` and returned; stop blocks on the unbuffered quit send)" % (
                          "deadlock schedule TLC derives from Lifecycle.tla" if r["origin"] == "cex" else "simulation walk %d" % r["n"]),
                      dict(schedule=[s for s in deb_scheds if s["n"] == r["n"]][:1], result={k: r[k] for k in r if k != "dump"}, stack=r["dump"]))
    unanswered = sum(len(r.get("unanswered") or []) for r in dres)
    for r in dres:
        if r.get("unsure"):
            unsettled.append("debouncer behaviour %d: %s" % (r["n"], r["unsure"]))
    dskipped = sum(1 for r in dres if r.get("skipped"))
    if dskipped:
        ctx.log("debouncer: %d simulation walks skipped after the first wall-clock verdicts" % dskipped)
    unfollowed = sum(1 for r in dres if r["stuck"])

    # ---- 4c. named scenarios
    sres = vf.read_ndjson(scn) + vf.read_ndjson(scn + ".isolated")
    scen_errors = unsettled
    for r in sres:
        if r["err"]:
            # not evidence about the property; only fatal when nothing else decided the run (see the end)
            scen_errors.append("scenario %s could not be set up: %s" % (r["name"], r["err"]))
            ctx.log(scen_errors[-1])
            continue
        ctx.log("scenario %-36s %s%s" % (r["name"], r["obs"], ("  -> " + r["viol"]) if r["viol"] else ""))
        if r["viol"]:
            ctx.violation(r["viol"], r["what"] + " [scenario " + r["name"] + "]", dict(observation=r["obs"], detail=r["detail"]))

    # ---- 4c'. the map of host pools under concurrent addHost / removeHost bursts
    poltr = os.path.join(ctx.tmp, "policy_traces.ndjson")
    polsum = json.loads(re.search(r"^VFSUMMARY (.*)$", outs["policy"], re.M).group(1))
    if polsum["Trials"] == 0:
        raise vf.Inconclusive("policy-pool driver: %s" % polsum)
    if polsum["Errors"]:
        unsettled.append("policy pool: %d burst(s) without a verdict" % polsum["Errors"])
    polviol, _, pollines, rmon4 = _monitor(ctx, poltr, "mon_policy")
    note(rmon4, "Trace_PoolMon(policy pool)")
    polrecs = {(r["sched"], r["k"]): r for r in vf.read_ndjson(poltr)}
    for v in polviol[:10]:
        key, what = POOL_KEYS.get(v["kind"], ("pool-" + v["kind"], v["kind"]))
        rec = polrecs.get((v["sched"], v["k"]), {})
        ctx.violation(key, "%s [concurrent addHost/removeHost burst on a real policyConnPool: %d open, NumConns %d, %d adders / %d removers]" % (
            what, rec.get("a", -1), rec.get("size", -1), rec.get("gor", 0) // 10, rec.get("gor", 0) % 10), rec)
    ctx.log("policy pool: %d bursts, %d records evaluated by TLC, %d invariant violations" % (polsum["Trials"], pollines, len(polviol)))

    # ---- 4d. randomized Session runs validated by TLC
    sviol, sdrift, slines, rmon3 = _monitor(ctx, str_, "mon_sess")
    note(rmon3, "Trace_PoolMon(sessions)")
    info = {}
    ip = str_ + ".info"
    if os.path.exists(ip):
        for r in vf.read_ndjson(ip):
            info[r.get("sched")] = r
    ssum = json.loads(re.search(r"^VFSUMMARY (.*)$", outs["sess"], re.M).group(1))
    for k_, i_ in sorted(info.items(), key=lambda kv: str(kv[0])):
        if i_.get("unsure"):
            unsettled.append("session run/batch %s: %s" % (k_, i_["unsure"]))
    if ssum["Errors"] > ssum["Runs"] // 4:
        raise vf.Inconclusive("%d of %d session runs could not be set up" % (ssum["Errors"], ssum["Runs"]))
    strace = vf.read_ndjson(str_)
    sby = collections.defaultdict(list)
    for rec in strace:
        sby[rec["sched"]].append(rec)
    batch_of = lambda n: (n - 1) // 8
    bad_batches = set(batch_of(v["sched"]) for v in sviol if v["kind"] in ("CloseReturns", "AllConnsClosedAfterClose"))
    for v in sviol:
        i = info.get(v["sched"], {})
        kind = v["kind"]
        if kind == "GoroutinesExit" and (v["sched"] - 100000) in bad_batches:
            continue  # what a hanging Close / a leaked connection of the same batch left behind: already reported
        if kind == "CloseReturns":
            key = "session-close-hang:" + (i.get("sig") or "unknown")
            what = "Session.Close did not return within the watchdog (10x the largest configured timeout) in a randomized run"
        elif kind == "AllConnsClosedAfterClose":
            key = "conn-leak-after-close:" + (i.get("leak") or "unclassified")
            what = "connections stayed open after Session.Close returned"
            if (i.get("leak") or "").startswith("pool-lock-deadlock:"):
                key = i["leak"]
                what += " (held by goroutines blocked behind a pool lock that is never released)"
        elif kind == "GoroutinesExit":
            rec = [r for r in sby[v["sched"]] if r["ev"] == "b_end"][0]
            if rec["q"].startswith("pool-lock-deadlock:"):
                key = rec["q"]
                what = ("driver goroutines of closed sessions can never end: a pool method waits for pool.mu while it holds it "
                        "(a connection closed under the lock reported a socket Close() error to hostConnPool.HandleError)")
            else:
                key = "goroutine-leak-after-close:" + rec["q"]
                what = "driver goroutines were still running after every session of the batch had been closed: " + rec["q"]
        elif kind == "QueryAfterClose":
            key = "query-after-close-not-refused"
            what = "a query issued after Close returned did not fail with ErrSessionClosed"
        elif kind == "CallersReturn":
            if i.get("stuck") == "Session.refreshRing":
                key = "refresh-listener-unanswered:session-refreshRing-caller"
                what = ("Session.refreshRing() (the call controlConn.reconnect makes) racing Session.Close never returned: "
                        "its refreshNow() listener was neither answered nor closed")
            else:
                key = "caller-stuck-after-close:" + (i.get("stuck") or "unknown")
                what = "a call that was in flight during Close never returned (" + (i.get("stuck") or "?") + ")"
        else:
            key, what = POOL_KEYS.get(kind, ("pool-" + kind, kind))
            what += " (pool of a real Session)"
        ctx.violation(key, "%s [run %d: %s]" % (what, v["sched"], i.get("plan", "")),
                      dict(info={k: (x[:4000] if isinstance(x, str) else x) for k, x in i.items()}, trace=sby[v["sched"]][-60:]))
    cdrift = [d for d in sdrift if d["kind"] == "cancel_before_pools"]
    sdrift = [d for d in sdrift if d["kind"] != "cancel_before_pools"]
    if cdrift:
        ctx.add_drift("Session.Close cancelled the session context before closing the pools in %d runs (Lifecycle.tla: "
                      "CancelAfterPools); no property clause was contradicted on the explored runs" % len(set(d["sched"] for d in cdrift)))
    if sdrift:
        ctx.add_drift("session pool hooks disagree with the monitor's count on %d records (first: %s)" % (len(sdrift), sdrift[0]))
    nsess = sum(1 for r in strace if r["ev"] == "s_end")
    ctx.log("sessions: %d runs, %d records evaluated by TLC, %d invariant violations" % (nsess, slines, len(sviol)))

    # ---- 5. thorough: the same drivers under the race detector
    races = []
    if not quick:
        rbin = vf.build_gotest(ctx, ".", ["common", "c17"], race=True)
        rtr = os.path.join(ctx.tmp, "race_sessions.ndjson")
        rc, out = vf.run_gotest(ctx, rbin, "^TestVfC17Sessions$", env={"VF_TRACES": rtr, "VF_NRUNS": 96, "VF_BATCH": 8}, timeout=900)
        rptr = os.path.join(ctx.tmp, "race_pool.ndjson")
        rc2, out2 = vf.run_gotest(ctx, rbin, "^TestVfC17PoolReplay$",
                                  env={"VF_SCHEDULES": psp, "VF_TRACES": rptr, "VF_PAR": 8}, timeout=900)
        harness_only = 0
        seen = set()
        for acc, drv, blk in _race_reports(out + out2):
            if not drv:
                harness_only += 1
                continue
            f = re.sub(r".*gocql\.", "", drv[0])
            f = f.replace("(*", "").replace(")", "")
            if f in seen:
                continue
            seen.add(f)
            races.append(f)
            ctx.violation("data-race:" + f, "the race detector reported a data race inside package gocql (%s) while a Session was "
                          "shared between goroutines" % f, blk[:6000])
        if harness_only:
            raise vf.Inconclusive("%d race reports between harness functions only: the harness itself races" % harness_only)
        ctx.log("race detector: %d reports in driver code" % len(races))

    # ---- 6. model results
    for f in bg:
        r, cfg = f.result()
        if not r.ok:
            raise vf.Inconclusive("model pass %s failed: violated=%s error=%s\n%s" % (cfg, r.violated, r.error, r.out[-2500:]))
        note(r, cfg)
    for f, (cfg, expect, what) in zip(exh, DEFECT_EXHIBITS):
        r, _ = f.result()
        got = r.violated
        if (got or "").startswith("temporal") or (got is None and re.search(r"Temporal propert(y|ies) .*violated", r.out)):
            got = "temporal"
        if got != expect:
            raise vf.Inconclusive("model %s should exhibit %s (%s) but gave violated=%s error=%s" % (cfg, expect, what, r.violated, r.error))
        note(r, cfg)
    for f, (cfg, expect) in zip(exh_pool2, POOL_EXHIBITS):
        r, _ = f.result()
        if expect == "temporal" and (r.violated or "").startswith("temporal"):
            note(r, cfg)
            continue
        if r.violated != expect:
            raise vf.Inconclusive("model %s should exhibit %s but gave violated=%s error=%s" % (cfg, expect, r.violated, r.error))
        note(r, cfg)
    r, _ = exh_policy.result()
    if r.violated not in ("NoOrphanPool", "HostBound"):
        raise vf.Inconclusive("PolicyPool.tla with the racy addHost should violate NoOrphanPool / HostBound, got %s / %s" % (r.violated, r.error))
    note(r, "PolicyPool_x_racyadd")
    r, _ = exh_pool.result()
    if r.violated != "ReportedNotInPool":
        raise vf.Inconclusive("Pool.tla with Defect_AddDeadConn = TRUE should violate ReportedNotInPool, got %s / %s" % (r.violated, r.error))
    note(r, "MC_Pool_defect")
    note(re_, "MC_Pool_edges")
    pool.shutdown()

    if scen_errors and not ctx.violations:
        raise vf.Inconclusive("; ".join(scen_errors))
    sample = scheds[len(scheds) // 3]
    ctx.cov = dict(
        states=states, transitions=trans,
        traces_validated_against_impl=psum["Schedules"] + len(dres) + nsess + len(sres) + polsum["Trials"],
        exhaustive=True,
        pool_graph_states=len(g.nodes), pool_graph_edges=g.nedges, pool_gate_level_edges=nmacro, pool_graphs_other_sizes=extra_graphs,
        pool_schedules_replayed=psum["Schedules"], pool_steps_replayed=psum["Steps"], pool_schedules_following_model=followed,
        pool_schedules_diverged=len(diverged), pool_simulation_walks=nwalk, pool_trace_records_monitored=plines,
        debouncer_behaviours_replayed=len(dres), debouncer_counterexample_reproduced=bool(cexr["hang"]),
        debouncer_walks_hanging=sum(1 for r in dres if r["hang"] and r["n"] != 0), debouncer_walks_not_followable=unfollowed,
        refresh_listeners_unanswered=unanswered, debouncer_goal_behaviours=len(DEB_GOALS),
        refresh_listeners_watched=sum(len(r["req"]) for r in dres),
        scenarios={r["name"]: (r["viol"] or "ok") + " | " + r["obs"] for r in sres},
        policy_pool_bursts=polsum["Trials"], session_runs=nsess, session_records_monitored=slines, session_setup_errors=ssum["Errors"],
        race_reports_in_driver=races if not quick else "not run in the quick tier",
        model_configs=configs,
        samples=[dict(kind="pool schedule", n=sample["n"], steps=["%s %s%s" % (s["cmd"], s["f"], s["c"] or "") for s in sample["steps"]],
                      final=sample["steps"][-1]["exp"]),
                 dict(kind="debouncer deadlock schedule from TLC", steps=["%s %s" % (s["cmd"], s["who"]) for s in cex_sched["steps"]],
                      real_result={k: cexr[k] for k in ("hang", "sig", "exited", "followed", "steps")})],
    )
    ctx.notes.append("observation (not a verdict): eventDebouncer.stop() is not idempotent but Session.Close guards it")
    ctx.assumptions += [
        "bounded instances: pool size 2 (3 in the thorough tier), 2-3 fill triggers, 2 failing connects, 1 node-side kill, 1-2 Close calls; "
        "Lifecycle with 2 closers, 1 requester, 1 debounce, 1 event, 1 failing probe, 1 control-connection failure, 1 host addition",
        "liveness under weak fairness of every driver goroutine; real-time bounds only by watchdogs (>= 10x the configured timeouts)",
        "data races are observed only by the race detector on the executed schedules (thorough tier)",
        "the steps of Pool.tla that no hook outside the lock separates (FillEnd, HandleError, spawned fill's first check, closing the "
        "taken connections) are replayed with priority (eager sub-graph); the full interleaving is covered by the model pass only",
    ]
