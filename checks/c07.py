"""C07 - frames are written whole.  Writer.tla + exhaustive writer-level case replay + concurrent
writers + byte streams of real connections validated by TLC."""
import json, os, re, glob, concurrent.futures as cf
import vf
import conn_common

KEY = {"NothingAfterPartial": "write-after-partial", "WholeFrames": "frames-interleaved-or-repeated",
       "CountExact": "byte-count-attribution", "OkImpliesWhole": "success-reported-for-short-write",
       "WriterHang": "writer-hang", "SpuriousRefusal": "spurious-refusal",
       "PartialWithoutClose": "partial-frame-without-close", "NotStartedNoBytes": "bytes-written-although-reported-not-started"}


def _vec_validate(ctx, path, sequential, name):
    r = vf.run_tlc(ctx, "Trace_WriterVec", "Trace_WriterVec.cfg", workers=1, heap="2g", timeout=600,
                   env={"VF_TRACE": path, "VF_SEQUENTIAL": "1" if sequential else "0"}, deadlock=False, name=name, quiet=True)
    if not r.ok:
        raise vf.Inconclusive("Trace_WriterVec failed on %s: %s\n%s" % (path, r.error, r.out[-1500:]))
    n = len(vf.read_ndjson(path))
    if r.distinct < n:
        raise vf.Inconclusive("Trace_WriterVec consumed %d of %d vectors" % (r.distinct, n))
    return vf.tlc_printed(r.out, "MONVIOL")


def run(ctx):
    quick = ctx.tier == "quick"
    ctx.level = "model_checking"
    # ---- 1. model pass: the repaired protocol satisfies C07 in both modes; the protocol without
    #         the refusal admits a frame after a torn one (TLC must find it: non-vacuity)
    states = trans = 0
    mres = []
    for cfg in ("MC_Writer_direct_TRUE.cfg", "MC_Writer_coalesce_TRUE.cfg"):
        r = vf.tlc_must_pass(ctx, "MC_Writer", cfg, workers=4, timeout=300)
        states += r.distinct
        trans += r.generated
        mres.append(dict(cfg=cfg, distinct=r.distinct, generated=r.generated))
    for cfg in ("MC_Writer_direct_FALSE.cfg", "MC_Writer_coalesce_FALSE.cfg"):
        r = vf.run_tlc(ctx, "MC_Writer", cfg, workers=4, timeout=300)
        if r.violated not in ("WholeFrames", "NothingAfterPartial"):
            raise vf.Inconclusive("Writer.tla without RefuseAfterTorn should violate WholeFrames (got %s)" % r.violated)
    # ---- 2. every bounded (mode, sizes, offset) case on the real writers
    g = vf.run_tlc(ctx, "Gen_Writer", "Gen_Writer.cfg", workers=1, timeout=300, deadlock=False)
    cases = vf.tlc_printed(g.out, "CASE")
    if not g.ok or not cases:
        raise vf.Inconclusive("Gen_Writer produced no cases: %s" % (g.error,))
    for i, c in enumerate(cases):
        c["id"] = i
    cp = os.path.join(ctx.tmp, "c07_cases.ndjson")
    vf.write_ndjson(cp, cases)
    binary = vf.build_gotest(ctx, ".", ["common", "c07"])
    rc, out = vf.run_gotest(ctx, binary, "^TestVfC07Cases$", env={"VF_CASES": cp}, timeout=900)
    vp = os.path.join(ctx.tmp, "c07_vectors.ndjson")
    if not os.path.exists(vp):
        raise vf.Inconclusive("case replay produced no vectors:\n" + out[-2000:])
    vecs = vf.read_ndjson(vp)
    viol = _vec_validate(ctx, vp, True, "vec_cases")
    byid = {v["id"]: v for v in vecs}
    drift = 0
    for v in viol:
        vec = byid.get(v["id"])
        if v["kind"] == "ModelMismatch":
            drift += 1
            continue
        ctx.violation("%s-%s" % (KEY.get(v["kind"], v["kind"]), vec["mode"]),
                      "%s: real %s writer, frame sizes %s, socket accepts %s bytes: results %s wire %s, a further write "
                      "afterwards: %s wrote %s" % (v["kind"], vec["mode"], vec["lens"], vec["k"], vec["res"], vec["wire"],
                                                  vec["res2"], vec["wire2"]) + (
                              "; one more, a coalescing window later: %s wrote %s" % (vec.get("res3"), vec.get("wire3"))), vec)
    if drift:
        ctx.add_drift("%d writer-level cases differ from Writer.tla's prediction without contradicting C07" % drift)
    ctx.log("case replay: %d cases, %d violations, %d drift" % (len(vecs), len(viol) - drift, drift))
    # ---- 3. concurrent writers over a byte-at-a-time socket
    rc, out = vf.run_gotest(ctx, binary, "^TestVfC07Concurrent$", env={"VF_ROUNDS": 60 if quick else 600}, timeout=900)
    cpth = os.path.join(ctx.tmp, "c07_concurrent.ndjson")
    cvecs = vf.read_ndjson(cpth)
    cviol = _vec_validate(ctx, cpth, False, "vec_conc")
    cby = {v["id"]: v for v in cvecs}
    for v in cviol:
        vec = cby[v["id"]]
        ctx.violation("%s-%s-concurrent" % (KEY.get(v["kind"], v["kind"]), vec["mode"]),
                      "%s: %d concurrent writers through the real %s writer: results %s wire %s" % (
                          v["kind"], len(vec["lens"]), vec["mode"], vec["res"], vec["wire"]), vec)
    ctx.log("concurrent writers: %d rounds, %d violations" % (len(cvecs), len(cviol)))
    # ---- 4. byte streams of real connections (concurrent requests, coalescing, write failure)
    files, crashed, out = conn_common.drive(ctx, nscen=16 if quick else 96, callers=8, percall=8 if quick else 20)
    nwire = 0

    def wire_one(path):
        evs = vf.read_ndjson(path)
        w = [e for e in evs if e["ev"] == "wire"]
        if not w:
            return path, None, evs
        recs = [dict(ev="wire", bytes=w[0]["bytes"], closed=w[0]["closed"], proto=w[0]["proto"], req=0, wok=0)]
        recs += [dict(ev="exp", bytes=e["bytes"], closed=0, proto=0, req=e["req"], wok=e["wok"]) for e in evs if e["ev"] == "frame_exp"]
        # a write reported "context ended before it began" (n = 0, context error) must have left no bytes
        notstarted = {e["req"] for e in evs if e["ev"] == "x_wend" and e.get("err") == "ctx" and e.get("a") == 0}
        # ... and so must a request whose context had ended before it was even submitted
        callseq = {e["req"]: e["seq"] for e in evs if e["ev"] == "call"}
        precancelled = {e["req"] for e in evs if e["ev"] == "env_cancel" and e["req"] in callseq and e["seq"] < callseq[e["req"]]}
        # ... and a request that was submitted while another write was stuck in the socket (env_held) and
        # whose context ended before the socket drained (env_unhold): it cannot have begun writing
        held = [e["seq"] for e in evs if e["ev"] == "env_held"]
        unhold = [e["seq"] for e in evs if e["ev"] == "env_unhold"]
        blocked = set()
        if held and unhold:
            blocked = {e["req"] for e in evs if e["ev"] == "env_cancel" and held[0] < e["seq"] < unhold[0]
                       and callseq.get(e["req"], 0) > held[0]}
        for rec in recs[1:]:
            if rec["req"] in notstarted or rec["req"] in precancelled or rec["req"] in blocked:
                rec["wok"] = -2
        wp = path.replace(".ndjson", ".wire.ndjson")
        vf.write_ndjson(wp, recs)
        r = vf.run_tlc(ctx, "Trace_WireMon", "Trace_WireMon.cfg", workers=1, heap="2g", timeout=600, env={"VF_TRACE": wp},
                       deadlock=False, name="wire_" + os.path.basename(path), quiet=True)
        return path, r, evs

    with cf.ThreadPoolExecutor(vf.NCPU) as ex:
        for path, r, evs in ex.map(wire_one, files):
            if r is None:
                continue
            if not r.ok:
                raise vf.Inconclusive("Trace_WireMon failed on %s: %s\n%s" % (path, r.error, r.out[-1500:]))
            nwire += 1
            kind = [e for e in evs if e["ev"] == "env_conn"][0]
            for v in vf.tlc_printed(r.out, "MONVIOL"):
                ctx.violation("%s-conn" % KEY.get(v["kind"], v["kind"]),
                              "%s on the byte stream of a real connection (scenario %s, protocol %s)" % (
                                  v["kind"], kind.get("kind"), kind.get("proto")),
                              dict(wire=[e for e in evs if e["ev"] in ("wire", "frame_exp")]))
    ctx.log("connection byte streams validated: %d" % nwire)
    ctx.cov = dict(
        states=states, transitions=trans, traces_validated_against_impl=len(vecs) + len(cvecs) + nwire,
        exhaustive=True, writer_cases=len(vecs), concurrent_rounds=len(cvecs), connection_byte_streams=nwire,
        model_configs=mres,
        samples=[dict(kind="writer-level case", case=vecs[len(vecs) // 2]), dict(kind="concurrent round", case=cvecs[0])],
    )
    ctx.assumptions += ["the socket accepts a prefix of what it is given and then fails (short write)",
                        "writer-level cases bounded to <= 3 frames of <= 3 bytes; larger sizes only in the concurrent rounds"]
