"""C06 - every request ends exactly once; closing never hangs; streams are never leaked."""
import conn_common
import vf


def run(ctx):
    conn_common.run_conn(ctx, "C06")
    # A statement that changes the schema ends only after the driver's wait for schema agreement
    # (Conn.awaitSchemaAgreement, started by executeQuery): "within a bounded time of the event that decides
    # it" includes the caller's cancellation and MaxWaitSchemaAgreement during that wait. SchemaAgree.tla
    # (extension X01) models that wait; its replay and its monitors run here as well and the clauses that
    # are C06's are reported under C06. Anything else X01 finds is X01's business (bin/check X01).
    try:
        import x01
        sub = vf.Ctx("X01", ctx.tier, ctx.seed)
        try:
            x01.run(sub)
            mine = [v for v in sub.violations if v["key"].startswith(("await-ignores-cancel", "await-polls-past-deadline",
                                                                      "await-no-return-on-agreement"))]
            for v in mine[:10]:
                ctx.violation("schema-wait:" + v["key"], "a schema-changing statement does not end: " + v["what"], v.get("detail"))
            ctx.log("schema agreement wait (SchemaAgree.tla): %d violations of C06 clauses, %d other" % (len(mine), len(sub.violations) - len(mine)))
            if isinstance(ctx.cov, dict):
                ctx.cov["schema_agreement_wait"] = dict(module="SchemaAgree.tla", c06_violations=len(mine),
                                                        coverage=(sub.cov or {}).get("agree") if isinstance(sub.cov, dict) else None)
        finally:
            sub.cleanup()
    except Exception as e:      # incl. vf.Inconclusive: the connection-level verdict above stands on its own
        ctx.notes.append("schema agreement wait not evaluated in this run: %s: %s" % (type(e).__name__, str(e)[:300]))
