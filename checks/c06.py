"""C06 - every request ends exactly once; closing never hangs; streams are never leaked."""
import conn_common


def run(ctx):
    conn_common.run_conn(ctx, "C06")
