"""C09 - partition tokens equal the ones Cassandra computes.

Token.tla is the oracle (Murmur3 with Cassandra's signed tail bytes and token normalisation,
RandomPartitioner |signed 128-bit MD5|, byte order, composite routing-key layout, decimal token
order).  spec -> code: MC_Token.tla enumerates keys / routing keys / token-string pairs with the
expected result, the Go harness executes them on the real code.  code -> spec: seeded random
observations of the real code are validated record by record by TLC (Trace_Token.tla)."""
import json, os, re, concurrent.futures as cf
import vf

MIN_LONG = "-9223372036854775808"
MAX_LONG = "9223372036854775807"


def _s(codes):
    try:
        return bytes(codes).decode("ascii", "replace")
    except (ValueError, TypeError):
        return repr(codes)


def _hex(b):
    try:
        return bytes(b).hex()
    except (ValueError, TypeError):
        return repr(b)


def _pretty(c):
    """A case / record with byte strings in hex and ASCII strings as text (for the evidence file)."""
    asc = ("h1", "tok", "ra") + (("a", "b", "out", "out2") if c.get("k") in ("cmp", "cmpk", "h1", "m3", "rnd") else ())
    d = {}
    for x, v in c.items():
        if x in ("vfn", "i", "panic"):
            continue
        if x in asc and not (x in ("a", "b") and c.get("k") == "ord"):
            d[x] = _s(v)
        elif x == "vals":
            d[x] = [dict(t=e["t"], n=e["n"], b=_hex(e["b"])) for e in v]
        elif x == "steps":
            d[x] = [dict(op=st["op"], vals=[dict(t=e["t"], n=e["n"], b=_hex(e["b"])) for e in st["vals"]], b=_hex(st["b"]), ix=st["ix"]) for st in v]
        elif x in ("outs", "outs2"):
            d[x] = [_hex(o) for o in v]
        elif isinstance(v, list) and x != "idx":
            d[x] = _hex(v)
        else:
            d[x] = v
    return d


def _nproc(ctx):
    n = int(os.environ.get("VERIF_PROCS") or 0)
    return n or (4 if ctx.tier == "quick" else min(8, vf.NCPU))


def _summary(out, what):
    m = re.search(r"^VFSUMMARY (.*)$", out, re.M)
    if not m:
        raise vf.Inconclusive("%s gave no summary:\n%s" % (what, out[-3000:]))
    return json.loads(m.group(1))


# ------------------------------------------------------------------ classification of a mismatch

def _held_changed(rec, exp):
    """The value was right when returned and wrong when read again later (it is still held)."""
    return "out2" in rec and isinstance(exp, list) and rec.get("out") == exp and rec["out2"] != exp and not rec.get("err")


def _vkey(rec, variant=None, exp=None):
    k = rec["k"]
    if rec.get("panic"):
        return "%s-panic" % k
    if _held_changed(rec, exp):
        if k == "rk":
            return "routing-key-%s-%dcomp-changed-while-held" % (rec["via"], len(rec["idx"]))
        return "%s-token-changed-while-held" % k
    if k == "h1":
        return "murmur3-h1-%s-tail%d" % (variant or "x", len(rec["key"]) % 16)
    if k == "m3":
        if _s(rec["out"]) == MIN_LONG:
            return "m3-hash-min-token-not-normalized"
        return "m3-hash-tail%d" % (len(rec["key"]) % 16)
    if k == "rnd":
        return "random-hash-%s-digest" % ("negative" if rec["md5"][0] >= 128 else "positive")
    if k == "ord":
        return "ordered-less"
    if k == "rkseq":
        if rec.get("err"):
            return "routing-key-seq-%s-error" % rec["via"]
        gets = [i for i, st in enumerate(rec["steps"]) if st["op"] == "get"]
        if isinstance(exp, list) and rec["outs"] == exp:
            return "routing-key-seq-%s-changed-while-held" % rec["via"]
        for n, gi in enumerate(gets):
            if not isinstance(exp, list) or n >= len(rec["outs"]) or n >= len(exp) or rec["outs"][n] != exp[n]:
                prev = rec["steps"][gi - 1]["op"] if gi > 0 else "start"
                return "routing-key-seq-%s-after-%s" % (rec["via"], prev)
        return "routing-key-seq-%s" % rec["via"]
    if k == "rk":
        if rec.get("err"):
            return "routing-key-%s-error" % rec["via"]
        if 0 in rec["idx"]:
            return "routing-key-%s-partially-bound-key" % rec["via"]
        return "routing-key-%s-%dcomp" % (rec["via"], len(rec["idx"]))
    if k == "cmp":
        return "%s-parse-order" % rec["p"]
    if k == "cmpk":
        return "%s-parsed-vs-hashed-order" % rec["p"]
    return "c09-" + k


def _describe(rec, exp):
    k = rec["k"]
    if rec.get("panic"):
        return "%s: the real code panicked: %s (input %s)" % (k, rec["panic"], json.dumps({x: rec[x] for x in rec if x in ("key", "a", "b", "vals", "idx")})[:300])
    if _held_changed(rec, exp):
        shown = (_hex if k == "rk" else _s)
        return ("%s: the value returned for %s was %s (as required); still held by the caller it read %s after later calls "
                "produced keys/tokens for other inputs" % (
                    ("routing key via " + rec["via"]) if k == "rk" else k + " token",
                    json.dumps(rec["vals"])[:200] + " idx " + str(rec["idx"]) if k == "rk" else _hex(rec["key"]),
                    shown(rec["out"]), shown(rec["out2"])))
    if k in ("h1", "m3"):
        return "%s of key %s (len %d): code %s, Cassandra %s" % (
            "Murmur3H1" if k == "h1" else "Murmur3Partitioner token", _hex(rec["key"]), len(rec["key"]), _s(rec["out"]), _s(exp))
    if k == "rnd":
        return "RandomPartitioner token of key %s (md5 %s): code %s, Cassandra %s" % (_hex(rec["key"]), _hex(rec["md5"]), _s(rec["out"]), _s(exp))
    if k == "ord":
        return "order-preserving: %s < %s: code %s (token string %s), required %s" % (_hex(rec["a"]), _hex(rec["b"]), rec["less"], _hex(rec["sa"]), exp)
    if k == "rkseq":
        script = " ".join(st["op"] + ("(" + ",".join(_hex(c["b"]) if c["t"] not in ("int", "bigint", "boolean") else str(c["n"]) for c in st["vals"]) + ")" if st["vals"] else
                                      "(" + _hex(st["b"]) + ")" if st["op"] == "route" else "") for st in rec["steps"])
        return "one %s (via %s, key positions %s), script: %s: keys at the gets: code %s (re-read later %s) err=%r, required %s" % (
            rec["obj"], rec["via"], rec["idx"], script, [_hex(o) for o in rec["outs"]], [_hex(o) for o in rec["outs2"]],
            rec.get("err"), [_hex(o) for o in exp] if isinstance(exp, list) else exp)
    if k == "rk":
        return "routing key via %s for values %s idx %s: code %s err=%r, required %s" % (
            rec["via"], json.dumps(rec["vals"])[:300], rec["idx"], _hex(rec["out"]), rec.get("err"), _hex(exp))
    if k == "cmp":
        return "%s: Parse(%s) < Parse(%s): code %s (reprinted %s), required %s" % (rec["p"], _s(rec["a"]), _s(rec["b"]), rec["less"], _s(rec["ra"]), exp)
    if k == "cmpk":
        return "%s: token string %s against Hash(%s): code (a<k, k<a) = (%s, %s), required %s" % (rec["p"], _s(rec["a"]), _hex(rec["key"]), rec["ak"], rec["ka"], exp)
    return json.dumps(rec)[:300]


def _trivial(rec):
    """Inputs that cannot distinguish a right implementation from a wrong one."""
    k = rec["k"]
    return (k in ("h1", "m3", "rnd") and not rec["key"]) or (k in ("cmp", "ord") and rec["a"] == rec["b"])


def _input_id(rec):
    return json.dumps([rec["k"]] + [rec.get(x) for x in ("p", "key", "a", "b", "vals", "idx", "via", "obj", "steps")], sort_keys=True)


# ------------------------------------------------------------------ TLC sides

def _gen(ctx, cfg, env, name):
    r = vf.run_tlc(ctx, "MC_Token", cfg, workers=1, heap="2g", timeout=600, env=env, deadlock=False, name=name, quiet=True)
    if not r.ok:
        raise vf.Inconclusive("generator %s failed: %s\n%s" % (name, r.error or r.violated, r.out[-2000:]))
    cases = vf.tlc_printed(r.out, "CASE")
    if not cases:
        raise vf.Inconclusive("generator %s produced no cases" % name)
    return cases, r


def _validate(ctx, path, name):
    """TLC judges every record of an NDJSON vector file; returns (list of (record, expected), nrecords)."""
    recs = vf.read_ndjson(path)
    if not recs:
        return [], 0
    r = vf.run_tlc(ctx, "Trace_Token", "Trace_Token.cfg", workers=1, heap="2g", timeout=900, env={"VF_TRACE": path},
                   deadlock=False, name=name, quiet=True)
    if not r.ok or r.distinct != len(recs) + 1:
        raise vf.Inconclusive("Trace_Token did not evaluate %s completely (ok=%s distinct=%d records=%d): %s\n%s" % (
            name, r.ok, r.distinct, len(recs), r.error, r.out[-1500:]))
    bad = []
    for b in vf.tlc_printed(r.out, "BAD"):
        bad.append((recs[b["line"] - 1], b["exp"]))
    for b in vf.tlc_printed(r.out, "DRIFT")[:3]:
        ctx.add_drift("%s (%s)" % (b["what"], json.dumps(_pretty(recs[b["line"] - 1]))[:200]))
    return bad, len(recs)


def _validate_sharded(ctx, recs, tag, nproc):
    shards = [recs[i::nproc] for i in range(nproc)]
    paths = []
    for i, sh in enumerate(shards):
        if sh:
            p = os.path.join(ctx.tmp, "%s_%d.ndjson" % (tag, i))
            vf.write_ndjson(p, sh)
            paths.append(p)
    bad, n = [], 0
    with cf.ThreadPoolExecutor(nproc) as ex:
        for b, k in ex.map(lambda p: _validate(ctx, p, os.path.basename(p)), paths):
            bad += b
            n += k
    return bad, n


# ------------------------------------------------------------------ the check

def run(ctx):
    if getattr(ctx, "replay", None):
        # a replay file names the tier and seed of the failing run; the run is deterministic in them
        # (except the concurrent UUID run), so re-running with them re-executes the failing inputs
        d = json.load(open(ctx.replay))
        ctx.tier, ctx.seed = d.get("tier", ctx.tier), int(d.get("seed", ctx.seed))
        ctx.log("replaying tier=%s seed=%d (%d recorded violation(s))" % (ctx.tier, ctx.seed, len(d.get("violations", []))))
    quick = ctx.tier == "quick"
    ctx.level = "exploration"
    nproc = _nproc(ctx)
    stride = 8 if quick else 1
    nrec_murmur = 1200 if quick else 30000
    nrec_token = 2500 if quick else 60000
    nconc = 60 if quick else 1500          # per goroutine and phase (8 goroutines, 2 phases)

    # ---- 1. generators (the ASSUMEd published vectors of Token.tla are checked by every TLC start)
    jobs = [("MC_Token_keys.cfg", dict(VF_SHARD=i, VF_NSHARD=nproc, VF_STRIDE=stride, VF_SEED=ctx.seed), "gen_keys_%d" % i)
            for i in range(nproc)]
    jobs += [("MC_Token_rk.cfg", {}, "gen_rk"), ("MC_Token_cmp.cfg", {}, "gen_cmp"), ("MC_Token_special.cfg", {}, "gen_special"),
             ("MC_Token_seq.cfg", {}, "gen_seq"), ("MC_Token_rkpartial.cfg", {}, "gen_rkpartial")]
    # the first TLC run creates the scratch copy of spec/ (not safe to do concurrently)
    cases, r0 = _gen(ctx, "MC_Token_ord.cfg", {}, "gen_ord")
    gen_states = r0.distinct
    with cf.ThreadPoolExecutor(nproc) as ex:
        for cs, r in ex.map(lambda j: _gen(ctx, *j), jobs):
            cases += cs
            gen_states += r.distinct
    bykind = {}
    for c in cases:
        bykind[c["k"]] = bykind.get(c["k"], 0) + 1
    ctx.log("generated cases: %s" % bykind)
    cpath = os.path.join(ctx.tmp, "cases.ndjson")
    vf.write_ndjson(cpath, cases)

    # ---- 2. build
    bins = {"unsafe": vf.build_gotest(ctx, "internal/murmur", ["murmur"]),
            "appengine": vf.build_gotest(ctx, "internal/murmur", ["murmur"], tags="verif,appengine")}
    hd = ["token"]
    if any(f.endswith(".go") for f in os.listdir(os.path.join(vf.HARNESS, "common"))):
        hd = ["common", "token"]
    gbin = vf.build_gotest(ctx, ".", hd)

    evaluations = 0
    inputs = set()
    samples = []
    mism = []          # (key, description, detail)

    def judge(rec, exp, variant=None):
        mism.append((_vkey(rec, variant, exp), _describe(rec, exp), dict(record=rec, required=exp, variant=variant)))

    # ---- 3. spec -> code: murmur package, both getBlock variants
    for variant, b in bins.items():
        rp = os.path.join(ctx.tmp, "res_murmur_%s.ndjson" % variant)
        rc, out = vf.run_gotest(ctx, b, "^TestVfC09MurmurCases$", env={"VF_CASES": cpath, "VF_RESULTS": rp})
        summ = _summary(out, "murmur cases (%s)" % variant)
        res = vf.read_ndjson(rp)
        if summ["cases"] != bykind.get("key", 0) or len(res) != summ["cases"]:
            raise vf.Inconclusive("murmur case driver executed %s of %d keys" % (summ, bykind.get("key", 0)))
        for r in res:
            c = cases[r["i"]]
            evaluations += 1
            if not _trivial(r):
                inputs.add(_input_id(r))
            if r["panic"] or r["out"] != c["h1"]:
                judge(r, c["h1"], variant)
        ctx.log("murmur (%s): %d generated keys executed" % (variant, len(res)))

    # ---- 4. spec -> code: partitioners, routing keys, token strings
    rp = os.path.join(ctx.tmp, "res_token.ndjson")
    vp = os.path.join(ctx.tmp, "vec_cases.ndjson")
    rc, out = vf.run_gotest(ctx, gbin, "^TestVfC09TokenCases$", env={"VF_CASES": cpath, "VF_RESULTS": rp, "VF_VECTORS": vp})
    summ = _summary(out, "token cases")
    res = vf.read_ndjson(rp)
    seen_cases = set()
    for r in res:
        c = cases[r["i"]]
        seen_cases.add(r["i"])
        evaluations += 1
        if not _trivial(r):
            inputs.add(_input_id(r))
        k = r["k"]
        if k == "m3":
            ok, exp = (r["out"] == c["tok"] and r["out2"] == c["tok"]), c["tok"]
        elif k == "rk":
            ok, exp = (r["err"] == "" and r["out"] == c["out"] and r["out2"] == c["out"]), c["out"]
        elif k == "rkseq":
            ok, exp = (r["err"] == "" and r["outs"] == c["outs"] and r["outs2"] == c["outs"]), c["outs"]
        elif k == "cmp":
            ok, exp = r["less"] == c["less"], c["less"]
            if ok and not r["panic"] and r["ra"] != c["a"]:
                ctx.add_drift("%s: ParseString(%s).String() = %s" % (r["p"], _s(c["a"]), _s(r["ra"])))
        elif k == "ord":
            ok, exp = r["less"] == c["less"], c["less"]
            if ok and not r["panic"] and r["sa"] != c["a"]:
                ctx.add_drift("orderedToken.String() of %s = %s" % (_hex(c["a"]), _hex(r["sa"])))
        else:
            raise vf.Inconclusive("unexpected result kind %r" % k)
        if r["panic"] or not ok:
            judge(r, exp)
    want = sum(1 for i, c in enumerate(cases) if not (c["k"] == "key" and not c["key"]))
    if len(seen_cases) != want:
        raise vf.Inconclusive("token case driver answered %d of %d cases" % (len(seen_cases), want))
    ctx.log("token cases executed: %d results" % len(res))
    picks = (lambda c: c["k"] == "key" and len(c["key"]) == 29 and len(set(c["key"])) > 1 and max(c["key"]) >= 128,
             lambda c: c["k"] == "rk" and len(c["idx"]) == 2 and c["idx"][0] != 1 and len(c["out"]) < 40,
             lambda c: c["k"] == "cmp" and c["p"] == "rnd" and c["a"] != c["b"] and len(c["a"]) > 20,
             lambda c: c["k"] == "rkseq" and c["obj"] == "query" and len(c["idx"]) == 2 and len(c["steps"]) == 6 and c["steps"][2]["op"] == "route")
    for pick in picks:
        for c in cases:
            if pick(c):
                samples.append(dict(direction="spec->code", case=_pretty(c)))
                break

    # ---- 5. code -> spec: recorded observations judged by TLC
    recs = vf.read_ndjson(vp)                      # RandomPartitioner on the generated keys
    tagged = [(r, None) for r in recs]
    for variant, b in bins.items():
        p = os.path.join(ctx.tmp, "vec_murmur_%s.ndjson" % variant)
        rc, out = vf.run_gotest(ctx, b, "^TestVfC09MurmurRecord$", env={"VF_VECTORS": p, "VF_N": nrec_murmur})
        _summary(out, "murmur record")
        tagged += [(r, variant) for r in vf.read_ndjson(p)]
    p = os.path.join(ctx.tmp, "vec_token.ndjson")
    rc, out = vf.run_gotest(ctx, gbin, "^TestVfC09TokenRecord$", env={"VF_VECTORS": p, "VF_N": nrec_token})
    _summary(out, "token record")
    tagged += [(r, None) for r in vf.read_ndjson(p)]
    p = os.path.join(ctx.tmp, "vec_conc.ndjson")
    rc, out = vf.run_gotest(ctx, gbin, "^TestVfC09TokenConcurrent$", env={"VF_VECTORS": p, "VF_G": 8, "VF_M": nconc})
    _summary(out, "token concurrent")
    conc = vf.read_ndjson(p)
    if len(conc) != 2 * 8 * nconc:
        raise vf.Inconclusive("concurrent routing-key driver recorded %d of %d observations" % (len(conc), 2 * 8 * nconc))
    tagged += [(r, None) for r in conc]
    if len(tagged) < 100:
        raise vf.Inconclusive("only %d recorded vectors" % len(tagged))
    for n, (r, variant) in enumerate(tagged):
        r["vfn"] = n
    bad, nval = _validate_sharded(ctx, [r for r, _ in tagged], "vec", nproc)
    if nval != len(tagged):
        raise vf.Inconclusive("TLC judged %d of %d vectors" % (nval, len(tagged)))
    evaluations += nval
    for r, _ in tagged:
        if not _trivial(r):
            inputs.add(_input_id(r))
    for r, exp in bad:
        judge(r, exp, tagged[r["vfn"]][1])
    vk = {}
    for r, _ in tagged:
        vk[r["k"]] = vk.get(r["k"], 0) + 1
    ctx.log("recorded vectors judged by TLC: %d %s, rejected %d" % (nval, vk, len(bad)))
    for kind in ("rnd", "cmpk", "rk", "rkseq"):
        for r, _ in tagged:
            if r["k"] == kind:
                samples.append(dict(direction="code->spec", record=_pretty(r)))
                break

    # ---- 6. verdict
    byk = {}
    for key, what, detail in mism:
        byk.setdefault(key, []).append((what, detail))
    for key, lst in sorted(byk.items()):
        ctx.violation(key, "%s [%d case(s) of this class]" % (lst[0][0], len(lst)), lst[0][1])

    tails = sorted({(len(json.loads(i)[2]) % 16, min(len(json.loads(i)[2]) // 16, 3)) for i in inputs if json.loads(i)[0] in ("h1", "m3")})
    ctx.cov = dict(
        evaluations=evaluations,
        distinct_nontrivial=len(inputs),
        rule="distinct (kind, input) tuples executed on the real code and compared with the value Token.tla requires; "
             "empty keys and comparisons of a value with itself are not counted; empty partition keys are excluded at the partitioner level",
        generated_cases=bykind, generator_states=gen_states, recorded_vectors=vk,
        held_values="every routing key / token returned by the real code is held and read again after >= %d later calls "
                    "(sequential) or after yielding to 7 other goroutines (%d concurrent observations)" % (8, len(conc)),
        murmur_tail_block_classes_covered=len(tails), mismatching_classes=sorted(byk.keys()),
        samples=samples[:8],
    )
    ctx.assumptions += [
        "a routing key is judged while the harness holds it like a caller does (until it is hashed); the hold window is 8 later "
        "calls sequentially and 1-3 scheduler yields concurrently",
        "crypto/md5 is trusted: the digest is handed to the specification, which does the signed interpretation and abs()",
        "value encodings of routing-key components are exercised for blob/text/int/bigint/boolean/uuid only (C12 owns encodings)",
        "bounded: key lengths <= 47 exhaustive pattern family (one deviating byte over 5 byte classes), random keys up to 200 bytes",
        "Cassandra's reference behaviour is transcribed from MurmurHash.hash3_x64_128, Murmur3Partitioner.getToken/normalize, "
        "RandomPartitioner (BigInteger.abs of the digest), CompositeType layout; self-tested against the vectors published in "
        "the repository's tests (DataStax Java series, python driver MD5 token)",
    ]
