"""C08 - stream ids unique, in range, all usable.  Streams.tla + graph walk + interval traces."""
import json, os, re, subprocess, collections, concurrent.futures as cf
import vf


def _edges(ctx, cfg, simulate=None, depth=None, timeout=600):
    r = vf.run_tlc(ctx, "MC_Streams", cfg, workers=1, timeout=timeout, simulate=simulate, depth=depth,
                   deadlock=False, name="edges_" + cfg)
    if not r.ok:
        raise vf.Inconclusive("edge dump failed: %s\n%s" % (r.error or r.violated, r.out[-2000:]))
    init = vf.tlc_printed(r.out, "INIT")
    edges = vf.tlc_printed(r.out, "EDGE")
    if not init or not edges:
        raise vf.Inconclusive("edge dump produced nothing")
    return init[0], edges, r


def _key(p):
    return json.dumps(p, sort_keys=True, separators=(",", ":"))


def _mover(a, b):
    """The thread whose pc/ops changed, and the call it starts (if any)."""
    mv = [t for t in a["th"] if a["th"][t]["pc"] != b["th"][t]["pc"] or a["th"][t]["ops"] != b["th"][t]["ops"]]
    if len(mv) != 1:
        mv = [t for t in a["th"] if a["th"][t] != b["th"][t]]
    if len(mv) != 1:
        return None
    t = mv[0]
    op, oid = "", 0
    if a["th"][t]["pc"] == "idle":
        if b["th"][t]["pc"] == "g_load_offset":
            op = "get"
        elif b["th"][t]["pc"] == "c_load_word":
            op, oid = "clear", b["th"][t]["id"]
    return t, op, oid


def path_cover(init, edges):
    """Schedules (paths from the initial state) that together traverse every edge."""
    ids = {}
    nodes = []

    def nid(p):
        k = _key(p)
        if k not in ids:
            ids[k] = len(nodes)
            nodes.append(p)
        return ids[k]

    i0 = nid(init)
    out = collections.defaultdict(list)
    eset = set()
    for e in edges:
        a, b = nid(e["from"]), nid(e["to"])
        if a == b or (a, b) in eset:
            continue
        eset.add((a, b))
        out[a].append(b)
    # BFS tree
    parent = {i0: None}
    q = collections.deque([i0])
    while q:
        x = q.popleft()
        for y in out[x]:
            if y not in parent:
                parent[y] = x
                q.append(y)
    uncovered = set(eset)
    paths = []
    # order: deepest sources last; greedy extension along uncovered edges
    for (a, b) in sorted(eset):
        if (a, b) not in uncovered:
            continue
        pre = []
        x = a
        while x is not None:
            pre.append(x)
            x = parent.get(x)
        pre.reverse()
        path = pre + [b]
        for i in range(len(path) - 1):
            uncovered.discard((path[i], path[i + 1]))
        cur = b
        while True:
            nxt = [y for y in out[cur] if (cur, y) in uncovered]
            if not nxt:
                break
            y = nxt[0]
            uncovered.discard((cur, y))
            path.append(y)
            cur = y
        paths.append(path)
    return nodes, paths, len(eset)


def walks_from_sim(init, edges):
    """Simulation mode prints the edges of each random walk in order; split at the initial state."""
    k0 = _key(init)
    walks, cur = [], None
    for e in edges:
        if _key(e["from"]) == k0:
            if cur:
                walks.append(cur)
            cur = [e["from"]]
        if cur is None:
            continue
        if _key(e["from"]) != _key(cur[-1]):
            # not contiguous (should not happen with one worker): start over
            cur = None
            continue
        if _key(e["from"]) != _key(e["to"]):
            cur.append(e["to"])
    if cur:
        walks.append(cur)
    return walks


def schedules_from_paths(node_paths, proto=2):
    scheds = []
    for n, states in enumerate(node_paths):
        steps = []
        for a, b in zip(states, states[1:]):
            m = _mover(a, b)
            if m is None:
                raise vf.Inconclusive("edge without a unique mover")
            t, op, oid = m
            steps.append(dict(t=t, op=op, id=oid, exp=b))
        scheds.append(dict(n=n, proto=proto, init=states[0], steps=steps))
    return scheds


def _lin_validate(ctx, path):
    r = vf.run_tlc(ctx, "Trace_StreamsLin", "Trace_StreamsLin.cfg", workers=1, heap="2g", timeout=300,
                   env={"VF_TRACE": path}, deadlock=False, name="lin_" + os.path.basename(path), dfs=True, quiet=True)
    hw = re.search(r'<<"HIGHWATER", (\d+)>>', r.out)
    return path, r, (int(hw.group(1)) if hw else None)


def run(ctx):
    quick = ctx.tier == "quick"
    ctx.level = "model_checking"
    # ---- 1. model pass
    mc = vf.tlc_must_pass(ctx, "MC_Streams", "MC_Streams_quick.cfg", timeout=600)
    seq = vf.tlc_must_pass(ctx, "MC_Streams", "MC_Streams_seq.cfg", timeout=600)
    race = vf.tlc_must_pass(ctx, "MC_Streams", "MC_Streams_race.cfg", timeout=900)
    states, trans = mc.distinct + seq.distinct + race.distinct, mc.generated + seq.generated + race.generated
    extra = []
    if not quick:
        t3 = vf.tlc_must_pass(ctx, "MC_Streams", "MC_Streams_thorough.cfg", timeout=1500, heap="14g", coverage=False)
        states += t3.distinct
        trans += t3.generated
        extra.append(dict(cfg="MC_Streams_thorough", distinct=t3.distinct, generated=t3.generated))

    # ---- 2. schedules: every edge of the 2-thread graph (+ random walks of larger instances)
    init, edges, _ = _edges(ctx, "MC_Streams_edges.cfg")
    nodes, paths, nedges = path_cover(init, edges)
    scheds = schedules_from_paths([[nodes[i] for i in p] for p in paths])
    # racing releases of one id (two release paths): every edge of the 2-thread race instance as well
    rinit, redges, _ = _edges(ctx, "MC_Streams_race_edges.cfg")
    rnodes, rpaths, rnedges = path_cover(rinit, redges)
    rs = schedules_from_paths([[rnodes[i] for i in p] for p in rpaths])
    for s_ in rs:
        s_["n"] += len(scheds)
    scheds += rs
    nedges += rnedges
    nodes = nodes + rnodes
    ctx.log("graph walk: %d nodes, %d edges, %d schedules" % (len(nodes), nedges, len(scheds)))
    nwalk = 0
    if not quick:
        i3, e3, _ = _edges(ctx, "MC_Streams_sim3.cfg", simulate="num=3000", depth=60, timeout=900)
        walks = walks_from_sim(i3, e3)
        ws = schedules_from_paths(walks)
        for s in ws:
            s["n"] += len(scheds)
        nwalk = len(ws)
        scheds += ws
        ctx.log("simulation walks (3 threads): %d" % nwalk)
    sp = os.path.join(ctx.tmp, "schedules.ndjson")
    vf.write_ndjson(sp, scheds)

    # ---- 3. replay on the real allocator
    binary = vf.build_gotest(ctx, "internal/streams", ["streams"])
    tp = os.path.join(ctx.tmp, "replay_traces.ndjson")
    rc, out = vf.run_gotest(ctx, binary, "^TestVfStreamsReplay$", env={"VF_SCHEDULES": sp, "VF_TRACES": tp}, timeout=900)
    m = re.search(r"^VFSUMMARY (.*)$", out, re.M)
    if not m:
        if "panic: negative streams inuse" in out:
            ctx.violation("count-negative", "the allocator panicked with a negative in-use count during replay", out[-1500:])
            m = None
        else:
            raise vf.Inconclusive("replay driver gave no summary:\n" + out[-3000:])
    summ = json.loads(m.group(1)) if m else dict(Schedules=0, Steps=0, Diverged=0, Errors=0, PrepareViolation="", FirstDivergence="")
    ctx.log("replay: %s" % summ)
    if summ.get("PrepareViolation"):
        ctx.violation("sequential-" + summ["PrepareViolation"].split(":")[0].split()[-1],
                      "sequential use of the real allocator: " + summ["PrepareViolation"])
    if summ["Errors"] and not summ["Diverged"]:
        raise vf.Inconclusive("replay errors: %s" % summ["FirstDivergence"])
    validated = summ["Schedules"] - summ["Diverged"]
    if summ["Diverged"]:
        ctx.add_drift("the allocator did not follow Streams.tla on %d of %d schedules (first: %s); the property "
                      "invariants were evaluated by TLC on the real traces instead" % (
                          summ["Diverged"], summ["Schedules"], summ["FirstDivergence"]))
    # ---- 4. property invariants evaluated by TLC on the real traces (all of them when any
    #         schedule diverged; a sample otherwise, as a standing demonstration of the binding)
    evs = vf.read_ndjson(tp) if os.path.exists(tp) else []
    bysched = collections.OrderedDict()
    for e in evs:
        bysched.setdefault(e["sched"], []).append(e)
    chosen = list(bysched.keys())
    if not summ["Diverged"]:
        step = max(1, len(chosen) // (100 if quick else 1000))
        chosen = chosen[::step]
    shards = [chosen[i::vf.NCPU] for i in range(vf.NCPU)]
    monviol = []

    def mon(i):
        if not shards[i]:
            return None
        p = os.path.join(ctx.tmp, "mon_%d.ndjson" % i)
        vf.write_ndjson(p, [e for s in shards[i] for e in bysched[s]])
        return vf.run_tlc(ctx, "Trace_StreamsMon", "Trace_StreamsMon.cfg", workers=1, heap="2g", timeout=900,
                          env={"VF_TRACE": p}, deadlock=False, name="mon_%d" % i, quiet=True)

    with cf.ThreadPoolExecutor(vf.NCPU) as ex:
        for r in ex.map(mon, range(vf.NCPU)):
            if r is None:
                continue
            if not r.ok:
                raise vf.Inconclusive("monitor run failed: %s\n%s" % (r.error, r.out[-1500:]))
            monviol += vf.tlc_printed(r.out, "MONVIOL")
    ctx.log("monitor: %d real traces evaluated by TLC, %d invariant violations" % (len(chosen), len(monviol)))
    for v in monviol[:20]:
        tr = bysched.get(v["sched"], [])
        ctx.violation("replay-" + v["kind"], "%s violated by the real allocator under schedule %d at step %d" % (
            v["kind"], v["sched"], v["k"]), dict(schedule=[s for s in scheds if s["n"] == v["sched"]][:1], trace=tr))

    # ---- 5. free-running goroutines, call/return traces explained by the abstract allocator
    ntr = 16 if quick else 96
    rc, out = vf.run_gotest(ctx, binary, "^TestVfStreamsStress$", env={"VF_NTRACES": ntr, "VF_NOPS": 40 if quick else 120},
                            timeout=600)
    # histories too long to run: the start-word counter preset to the values they leave behind
    rc2, out2 = vf.run_gotest(ctx, binary, "^TestVfStreamsLongHistory$", env={}, timeout=600)
    if "VFHARNESS" in out2 or ("VFLONGHIST ok" not in out2 and "VIOLATION all-ids" not in out2):
        raise vf.Inconclusive("long-history driver did not run:\n" + out2[-1500:])
    out = out + "\n" + out2
    if "VIOLATION all-ids" in out:
        ctx.violation("sequential-all-ids", "sequential acquisition did not hand out every non-reserved id: " +
                      re.search(r"VIOLATION all-ids[^\n]*", out).group(0))
    if "panic: negative streams inuse" in out:
        ctx.violation("count-negative", "the allocator panicked with a negative in-use count under concurrent use", out[-1500:])
    files = sorted(f for f in os.listdir(ctx.tmp) if f.startswith("lin_") and f.endswith(".ndjson"))
    lin_ok = 0
    with cf.ThreadPoolExecutor(vf.NCPU) as ex:
        for path, r, hw in ex.map(lambda f: _lin_validate(ctx, os.path.join(ctx.tmp, f)), files):
            if r.violated == "NotAccepted":
                lin_ok += 1
            elif r.ok:
                log = vf.read_ndjson(path)
                at = log[hw - 1] if hw and hw <= len(log) else None
                ctx.violation("lin-unexplainable", "a concurrent execution of the real allocator has no explanation by the "
                              "abstract allocator (unique / in range / no false exhaustion / Clear reports / count); "
                              "first unexplained event: %s" % json.dumps(at), dict(trace=log[:400], highwater=hw))
            else:
                raise vf.Inconclusive("Trace_StreamsLin failed on %s: %s\n%s" % (path, r.error, r.out[-1500:]))
    ctx.log("interval traces explained: %d of %d" % (lin_ok, len(files)))

    sample_s = scheds[len(scheds) // 2]
    ctx.cov = dict(
        states=states, transitions=trans,
        traces_validated_against_impl=validated + lin_ok,
        exhaustive=True,
        graph_nodes=len(nodes), graph_edges=nedges, schedules_replayed=summ["Schedules"], steps_replayed=summ["Steps"],
        schedules_diverged=summ["Diverged"], simulation_walks=nwalk,
        real_traces_monitored_by_tlc=len(chosen), interval_traces=len(files), interval_traces_explained=lin_ok,
        model_configs=[dict(cfg="MC_Streams_quick", distinct=mc.distinct, generated=mc.generated, depth=mc.depth),
                       dict(cfg="MC_Streams_seq", distinct=seq.distinct, generated=seq.generated),
                       dict(cfg="MC_Streams_race", distinct=race.distinct, generated=race.generated)] + extra,
        samples=[dict(kind="schedule", init_free=sample_s["init"]["used"],
                      steps=[(s["t"], s["op"] or s["exp"]["th"][s["t"]]["pc"]) for s in sample_s["steps"]][:40])],
    )
    ctx.assumptions += [
        "atomic operations of sync/atomic are sequentially consistent (the model interleaves them)",
        "bounded instance: 2 words x 64 bits with 3 free ids, 2 threads x 3 calls (3 threads in the thorough tier); "
        "larger capacities only by the recorded free-running executions",
    ]
