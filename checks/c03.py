"""C03 - request frames on the wire are exactly what the CQL native protocol specifies.

spec/WireReq.tla is a reference decoder (and encoder) of the request side of the native protocol
v1..v5 written from the protocol documents.  Binding:
  spec -> code  Gen_WireReq.tla enumerates kinds x versions x optional-parameter subsets x value
                shapes x header options x stream ids, one TLC state per case, with the bytes the
                reference encoder expects; every case is built by the driver's real frame builders.
  code -> spec  the same harness builds seeded random / boundary requests; every recorded
                (logical request, bytes | refusal) is decided by TLC: DecodeRequest(bytes) must
                recover the logical request (Trace_WireReq.tla).
  65535/65536   run-length summaries (count field vs. entries present) from the harness's own
                wire reader, decided by SummaryVerdict in TLC (trusted base: that reader).
"""
import json, os, re, collections, concurrent.futures as cf
import vf

DEV_WORKERS = int(os.environ.get("VF_C03_WORKERS", "0") or 0)


def _par(ctx):
    return DEV_WORKERS or vf.NCPU


def _generate(ctx, quick):
    """TLC enumerates the case space (and model-checks decoder/encoder agreement on it)."""
    cfg = "Gen_WireReq_quick.cfg" if quick else "Gen_WireReq_thorough.cfg"
    shards = [""] if quick else ["1", "2", "3", "4", "5"]

    def one(ver):
        return vf.run_tlc(ctx, "Gen_WireReq", cfg, workers=1 if not quick else 4, heap="3g", timeout=800,
                          env={"VF_GEN_VER": ver, "JAVA_TOOL_OPTIONS": "-XX:ParallelGCThreads=2"}, deadlock=False, name="gen_" + (ver or "all"))

    cases, states = [], 0
    with cf.ThreadPoolExecutor(len(shards)) as ex:
        for r in ex.map(one, shards):
            if not r.ok:
                tail = "\n".join(l for l in r.out.splitlines() if not l.startswith('<<"CASE"'))[-2500:]
                raise vf.Inconclusive("Gen_WireReq model pass failed (violated=%s error=%s)\n%s" % (r.violated, r.error, tail))
            cs = vf.tlc_printed(r.out, "CASE")
            if len(cs) != r.distinct:
                raise vf.Inconclusive("generator printed %d cases for %d states" % (len(cs), r.distinct))
            cases += cs
            states += r.distinct
    for i, c in enumerate(cases):
        c["id"] = i + 1
    return cases, states


def _validate(ctx, path):
    r = vf.run_tlc(ctx, "Trace_WireReq", "Trace_WireReq.cfg", workers=1, heap="3g", timeout=1500,
                   env={"VF_TRACE": path, "JAVA_TOOL_OPTIONS": "-XX:ParallelGCThreads=2"}, deadlock=False, name="val_" + os.path.basename(path), quiet=True)
    return path, r


def _sig(v):
    """Signature of a sent request: which layout features it exercises."""
    vals = v["values"] if v["kind"] != "BATCH" else [x for s in v["stmts"] for x in s["values"]]
    shape = tuple((x["k"], x["named"], min(len(x["b"]), 2)) for x in vals[:4]) + (min(len(vals), 5),)
    st = v["stream"]
    sclass = 0 if st == 0 else 1 if st < 127 else 2 if st == 127 else 3 if st < 256 else 4 if st < 32767 else 5
    return (v["kind"], v["v"], v["comp"], v["trace"], min(len(v["payload"]), 2), v["skipmeta"], (v["pagesize"] > 0) - (v["pagesize"] < 0),
            len(v["pstate"]) > 0, v["serial"], v["ts"]["set"], v["ts"]["now"], len(v["ks"]) > 0, shape, sclass,
            v["btype"], tuple(s["prep"] for s in v["stmts"][:3]), min(len(v["smap"]), 3), min(len(v["slist"]), 3),
            v["tok"]["nul"], min(len(v["tok"]["b"]), 1))


def run(ctx):
    quick = ctx.tier == "quick"
    ctx.level = "exploration"
    par = _par(ctx)

    # ---- 1. spec -> code: the case space, enumerated by TLC
    replay = getattr(ctx, "replay", None)
    if replay:
        # re-execute the logical requests of a replay file on the current tree (the boundary
        # summaries are always recomputed)
        stored = [v["detail"] for v in json.load(open(replay))["violations"] if isinstance(v.get("detail"), dict)]
        cases = [dict(d, exp=[], bytes=[], err="") for d in stored if "kind" in d and "sum" not in d and "values" in d]
        for i, c in enumerate(cases):
            c["id"] = i + 1
        gen_states = 0
        ctx.log("replay: %d stored request(s) from %s" % (len(cases), replay))
    else:
        cases, gen_states = _generate(ctx, quick)
        ctx.log("generator: %d cases (decoder/encoder round trip and sensitivity hold on all)" % len(cases))
    cpath = os.path.join(ctx.tmp, "c03_cases.ndjson")
    vf.write_ndjson(cpath, cases)

    # ---- 2. the real frame builders
    binary = vf.build_gotest(ctx, ".", ["common", "c03"])
    nrand = 1800 if quick else 40000
    env = {"VF_C03_SHARDS": 1, "VF_CASES": cpath, "VF_C03_N": nrand, "VF_C03_NCONN": 500 if quick else 6000,
           "VF_C03_NSESS": 60 if quick else 800, "VF_C03_NCONC": 120 if quick else 1500}
    sess_stats = {}
    if replay:
        env.update(VF_C03_N=0, VF_C03_NCONN=0, VF_C03_NSESS=0, VF_C03_NCONC=0)
    for test in ("TestVfC03Replay", "TestVfC03Record", "TestVfC03Boundary", "TestVfC03ConnPath", "TestVfC03Session", "TestVfC03Concurrent"):
        rc, out = vf.run_gotest(ctx, binary, "^%s$" % test, env=env, timeout=900)
        if rc != 0 or "--- PASS" not in out:
            raise vf.Inconclusive("driver %s failed (rc=%s):\n%s" % (test, rc, out[-3000:]))
        m = re.search(r"VFC03 session sessions=(\d+) noconnect=(\d+) ops=(\d+) frames=(\d+) unexplained=(\d+)", out)
        if m:
            ns, nc, nops, nfr, nun = map(int, m.groups())
            sess_stats = dict(sessions=ns, not_connected=nc, api_calls=nops, frames=nfr, unexplained_calls=nun)
            if not replay and nfr < 50:
                raise vf.Inconclusive("session-level driver produced almost nothing: %s" % sess_stats)
            if nc or nun:
                ctx.notes.append("session-level driver: %d session(s) not connected, %d call(s) not judged" % (nc, nun))
        m = re.search(r"VFC03 connpath=(\d+) skipped=(\d+)", out)
        if m and int(m.group(2)) * 10 > int(m.group(1)):
            raise vf.Inconclusive("the connection-level stub carried only %s requests (%s skipped)" % (m.group(1), m.group(2)))
    recorded = sorted(os.path.join(ctx.tmp, f) for f in os.listdir(ctx.tmp) if re.match(r"c03_(gen|rand|big|conn|sess|conc)_\d+\.ndjson$", f))
    vecs = {}
    for f in recorded:
        for v in vf.read_ndjson(f):
            if v["id"] in vecs:
                raise vf.Inconclusive("duplicate vector id %s" % v["id"])
            vecs[v["id"]] = v
    # one TLC process per shard (JVM start and spec parsing are paid once per shard): deal the
    # vectors out by size
    nsh = max(1, min(par, len(vecs) // 700 + 1))  # a JVM start costs about as much as 500 vectors
    shards = [[] for _ in range(nsh)]
    load = [0] * nsh
    for v in sorted(vecs.values(), key=lambda v: -(len(v.get("bytes", [])) + 40 * len(v.get("values", [])))):
        i = load.index(min(load))
        shards[i].append(v)
        load[i] += 300 + 4 * len(v.get("bytes", [])) + 2 * len(v.get("exp", []))
    files = []
    for i, sh in enumerate(shards):
        fp = os.path.join(ctx.tmp, "c03_shard_%02d.ndjson" % i)
        vf.write_ndjson(fp, [{k: v[k] for k in v if k not in ("exp", "src")} for v in sh])
        files.append(fp)
    gen_vecs = [v for v in vecs.values() if v.get("src") == "tlc"]
    if len(gen_vecs) != len(cases):
        raise vf.Inconclusive("harness built %d of %d generated cases" % (len(gen_vecs), len(cases)))
    ctx.log("harness: %d vectors recorded (%d generated, %d random, %d boundary summaries)" % (
        len(vecs), len(gen_vecs), sum(1 for v in vecs.values() if v.get("src") in ("random", "conn", "boundary", "session", "conc")),
        sum(1 for v in vecs.values() if "sum" in v)))

    # ---- 3. TLC decides every vector
    verdicts, direct, tally, nval = {}, {}, collections.Counter(), 0
    with cf.ThreadPoolExecutor(par) as ex:
        for path, r in ex.map(lambda f: _validate(ctx, f), files):
            if not r.ok:
                raise vf.Inconclusive("Trace_WireReq failed on %s: %s\n%s" % (path, r.error or r.violated, r.out[-2500:]))
            t = vf.tlc_printed(r.out, "VFTALLY")
            if len(t) != 1:
                raise vf.Inconclusive("no tally from TLC for %s" % path)
            nval += t[0]["n"]
            tally.update(t[0]["tally"])
            for x in vf.tlc_printed(r.out, "VFVERDICT"):
                verdicts[x["id"]] = x
            for x in vf.tlc_printed(r.out, "VFDIRECT"):
                direct[x["id"]] = x
    if nval != len(vecs):
        raise vf.Inconclusive("TLC evaluated %d of %d vectors" % (nval, len(vecs)))
    ctx.log("TLC verdicts: %s" % dict(tally))

    # vacuity guard: every (kind, version) that exists in the protocol was produced and accepted
    if not replay:
        okpairs = set((v["kind"], v["v"]) for vid, v in vecs.items()
                      if "sum" not in v and not v["err"] and verdicts.get(vid, {"class": "ok"})["class"] == "ok")
        want = set((k, ver) for k in ("STARTUP", "OPTIONS", "AUTH_RESPONSE", "REGISTER", "QUERY", "PREPARE", "EXECUTE", "BATCH")
                   for ver in range(1, 6) if not (ver == 1 and k in ("BATCH", "AUTH_RESPONSE")))
        missing = sorted(want - okpairs)
        if missing and not any(v.get("class") in ("malformed", "mismatch") for v in verdicts.values()):
            raise vf.Inconclusive("vacuous run: no accepted frame for %s" % missing)
        if tally["ok"] * 4 < len(vecs):
            ctx.notes.append("only %d of %d vectors were plainly ok" % (tally["ok"], len(vecs)))

    # ---- 4. violations / drift
    layouts = collections.Counter()
    refused_expr = []
    for vid, x in sorted(verdicts.items()):
        v = vecs[vid]
        if x.get("layout"):
            layouts[x["layout"]] += 1
        small = {k: v[k] for k in v if k not in ("exp",)}
        if len(json.dumps(small)) > 6000:
            small = {k: small[k] for k in ("id", "v", "kind", "stream", "err") if k in small}
            for k in ("sum", "site", "asked", "count", "present", "exact", "len"):
                if k in v:
                    small[k] = v[k]
        if "sum" in v:
            small.pop("bytes", None)
            d = direct.get(vid)
            if d is not None:
                small["reference_decoder_on_whole_frame"] = "accepted" if d["ok"] else d["why"]
                if d["ok"] == (x["class"] == "malformed"):
                    raise vf.Inconclusive("summary reader and reference decoder disagree on %s" % json.dumps(small))
            if x["class"] in ("malformed", "mismatch"):
                cls = "boundary-frame-unreadable" if v["present"] < 0 else "count-wrap" if x["class"] == "malformed" else "count-mismatch"
                key = "%s:%s@v%d:%s" % (cls, v["kind"], v["v"], v["site"])
                ctx.violation(key, "%s v%d with %d %s: frame sent with count field %d but %d entries present (exact=%d)" % (
                    v["kind"], v["v"], v["asked"], v["site"], v["count"], v["present"], v["exact"]), small)
            elif x["class"] == "refused-expressible":
                refused_expr.append(small)
            continue
        if x["class"] in ("malformed", "mismatch"):
            key = "%s:%s@v%d:%s" % (x["class"], v["kind"], v["v"], x["why"])
            long = [n for n, l in [("keyspace", len(v["ks"]))] + [("value-name", len(y["name"])) for y in v["values"]] +
                    [("payload-key", len(kv["k"])) for kv in v["payload"]] + [("startup-value", len(kv["v"])) for kv in v["smap"]]
                    if l > 65535]
            if long:
                key = "string-length-wrap:%s@v%d:%s" % (v["kind"], v["v"], long[0])
            what = ("the reference decoder rejects the %s frame built for protocol v%d: %s" if x["class"] == "malformed" else
                    "the %s frame built for protocol v%d decodes to a different request: field %s") % (v["kind"], v["v"], x["why"])
            ctx.violation(key, what, small)
        elif x["class"] == "refused-expressible":
            refused_expr.append(small)
    if ctx.violations:
        kc = collections.Counter(re.sub(r"@v\d", "@v*", v["key"]) for v in ctx.violations)
        ctx.log("violation key classes: %s" % dict(kc))
    if refused_expr:
        ctx.add_drift("%d request(s) expressible in their version were refused by the builder, e.g. %s" % (
            len(refused_expr), json.dumps(refused_expr[0])[:600]))

    # byte-for-byte agreement with the reference encoder (where the encoding is unique)
    cmpn, same, diff_ok = 0, 0, []
    for v in gen_vecs:
        if v["exp"] and not v["err"]:
            cmpn += 1
            if v["exp"] == v["bytes"]:
                same += 1
            elif verdicts.get(v["id"], {"class": "ok"})["class"] in ("ok", "downgraded"):
                diff_ok.append(v)
    if diff_ok:
        ctx.add_drift("%d frame(s) decode to the requested request but differ from the reference encoder's bytes, e.g. "
                      "%s v%d got %s expected %s" % (len(diff_ok), diff_ok[0]["kind"], diff_ok[0]["v"], diff_ok[0]["bytes"][:80],
                                                     diff_ok[0]["exp"][:80]))
    for lay, n in layouts.items():
        ctx.notes.append("v5 EXECUTE layout observed: %s (%d frames)" % (lay, n))

    sent = [v for v in vecs.values() if "sum" not in v and not v["err"]]
    sigs = set(_sig(v) for v in sent)
    sample = next((v for v in gen_vecs if v["kind"] == "EXECUTE" and v["v"] == 4 and v["exp"] and len(v["values"]) > 1),
                  next((v for v in vecs.values() if "sum" not in v), None))
    ctx.cov = dict(
        evaluations=nval,
        distinct_nontrivial=len(sigs),
        rule="distinct (kind, version, compression, tracing, payload size class, each optional parameter present/absent, "
             "value shape [kind/named/empty per value, count class], stream class, batch type and entry kinds, map/list size "
             "class, token null/empty) among the frames the driver actually produced and TLC decoded",
        generator_cases=len(cases), generator_states=gen_states, random_vectors=sum(1 for v in vecs.values() if v.get("src") == "random"),
        boundary_summaries=sum(1 for v in vecs.values() if "sum" in v),
        frames_sent=len(sent), verdict_classes=dict(tally),
        bytes_compared_with_reference_encoder=cmpn, bytes_identical=same,
        v5_execute_layouts=dict(layouts), session_level=sess_stats,
        concurrent_compressed_vectors=sum(1 for v in vecs.values() if v.get("src") == "conc"),
        connection_sequence_vectors=sum(1 for v in vecs.values() if v.get("src") == "conn"),
        samples=[dict(kind=sample["kind"], v=sample["v"], stream=sample["stream"], values=sample["values"],
                      pagesize=sample["pagesize"], serial=sample["serial"], bytes=sample["bytes"],
                      verdict=verdicts.get(sample["id"], {"class": "ok"})["class"])] if sample else [],
    )
    ctx.assumptions += [
        "v5 reference = 'as implemented': legacy v3/v4 frame header with the USE_BETA flag 0x10 (no v5 segment framing), "
        "v5 bodies with [int] flags, keyspace flag 0x80 and PREPARE flags; EXECUTE accepted with or without result_metadata_id",
        "65535/65536 boundary: count field vs entries present comes from the harness's own Go wire reader (vfC03Summarise); "
        "TLC decides on that summary",
        "compression: a stand-in codec that prefixes the body with one byte; snappy/lz4 themselves belong to C18",
        "frames are taken from framer.buf after buildFrame (what Conn.exec hands to the connection writer); "
        "guards in front of the builders are consulted for BATCH@v1 (Conn.executeBatch) and > 65535 statements (Session.executeBatch)",
    ]
