"""C14 - prepared statements: prepared once, failures not cached, re-prepared when lost.

Prepare.tla (model checking) + Gen_Prepare.tla (TLC behaviours forced onto the real code) +
Trace_Prepare.tla (TLC evaluates the property on executions recorded from the real code)."""
import collections, json, os, re, concurrent.futures as cf
import vf

E3 = '{"e1", "e2", "e3"}'
E2 = '{"e1", "e2"}'
INVS = "Bounded PreparedOnce FailedNotCached FailedReported ExecAttribution ArityChecked Justified NoStuck"

# model passes: (name, SPECIFICATION, Execs, MaxLRU, MaxForget, MaxFail, Cancellable, UniqueIds, Plans, PROPERTY)
# Spec = every interleaving; SpecPOR = local steps first (MC_Prepare.tla); Fair* + Terminates = liveness
MODEL_QUICK = [
    ("full_lru1", "Spec", E3, 1, 1, 1, "{}", "TRUE", "PlansQuick", ""),
    ("por_lru2", "SpecPOR", E3, 2, 1, 1, "{}", "FALSE", "PlansMost", ""),
    ("live_two", "FairSpec", E2, 1, 1, 1, '{"e2"}', "TRUE", "PlansSmall4", "Terminates"),
]
MODEL_THOROUGH = [
    ("full_lru1_all", "Spec", E3, 1, 1, 1, "{}", "TRUE", "PlansCore", ""),
    ("por_lru1_f2", "SpecPOR", E3, 1, 2, 1, "{}", "TRUE", "PlansCore", ""),
    ("live_two_f2", "FairSpec", E2, 1, 2, 1, '{"e2"}', "TRUE", "PlansSmall", "Terminates"),
    ("por_lru2_f2", "SpecPOR", E3, 2, 2, 1, "{}", "TRUE", "PlansMost", ""),
    ("full_lru2", "Spec", E3, 2, 1, 1, "{}", "FALSE", "PlansCore", ""),
    ("por_cancel", "SpecPOR", E3, 2, 2, 1, '{"e2"}', "TRUE", "PL2", ""),
    ("two_lru2", "Spec", E2, 2, 2, 1, '{"e2"}', "FALSE", "PlansSmall4", ""),
    ("two_batches", "Spec", E2, 1, 1, 1, "{}", "TRUE", "PS4", ""),
    ("live_three", "FairSpecPOR", E3, 1, 1, 1, "{}", "TRUE", "PlansCore", "Terminates"),
]

# behaviours TLC has to find (counterexamples of "never"): (name, invariant, Plans, MaxLRU, MaxForget, MaxFail)
TARGETS = [
    ("evict-inflight", "N_EvictInflight", "PL2", 1, 0, 0),
    ("fail-removes-newer", "N_FailRemovesNewer", "PT4", 1, 0, 1),
    ("join-failing", "N_JoinFailing", "PL1", 1, 0, 1),
    ("lost-with-waiters", "N_LostWithWaiters", "PL1", 1, 0, 1),
    ("unprepared-twice", "N_UnpreparedTwice", "PL1", 2, 1, 0),
    ("unprepared-inflight", "N_UnpreparedInflight", "PL1", 2, 1, 0),
    ("batch-thrash", "N_BatchThrash", "PS3", 1, 1, 0),
    ("batch-unprepared-cached", "N_BatchThrash", "PS3", 2, 1, 0),
    ("arity-zero", "N_Arity", "PL8", 2, 0, 0),
    ("arity", "N_Arity", "PL5", 2, 0, 0),
]

# burst driver: (scenarios, rounds per scenario); 4-8 goroutines per round
BURST_QUICK = (8, 16)
BURST_THOROUGH = (48, 32)

CMDS = {"Start", "PrepOk", "PrepFail", "PrepLost", "Done", "ExecReply", "Evict", "Forget", "Cancel"}
RES = {"ok": "ok", "err_prepare": "prepare", "err_arity": "arity", "err_ctx": "ctx", "err_unprepared": "unprepared", "none": "none"}
KS = {"k1": "ks1", "k2": "ks2"}

KEYS = {
    "PreparedOnce": ("prepared-once-exceeded", "more PREPAREs of one host+keyspace+statement than 1 + removals of its cache entry"),
    "FailedNotCached": ("failed-flight-cached", "a failed PREPARE stayed in the cache after it was reported"),
    "FailedReported": ("failed-not-reported", "an executor that waited on a failed PREPARE did not get the error"),
    "ExecAttribution": ("exec-id-not-from-own-flight", "EXECUTE/BATCH carried an id that no PREPARE this executor waited on returned"),
    "ArityChecked": ("arity-frame-sent", "an execution with a wrong number of values reached the wire or succeeded"),
    "ExecUnknownId": ("exec-unknown-id", "EXECUTE/BATCH sent with an id no node ever returned"),
    "ExecForeignHost": ("exec-foreign-host", "EXECUTE/BATCH sent to a host with an id prepared on another host"),
    "ExecForeignKeyspace": ("exec-foreign-keyspace", "EXECUTE/BATCH sent on a connection with an id prepared in another keyspace"),
    "ExecWrongStatement": ("exec-wrong-statement", "EXECUTE/BATCH sent with the id of a different statement"),
    "ArityNotChecked": ("arity-not-checked", "a wrong number of bound values was sent instead of being reported"),
    "UnpreparedNotReprepared": ("unprepared-not-reprepared", "an id the node rejected twice as UNPREPARED was sent a third time: the driver does not prepare again"),
    "UnpreparedNotRecovered": ("unprepared-not-recovered", "UNPREPARED was returned to the caller after at most two UNPREPARED answers in a row instead of preparing again"),
    "ResultMetaMismatch": ("result-meta-mismatch", "rows were decoded with result metadata that does not belong to the executed id"),
    "BindMetaMismatch": ("bind-meta-mismatch", "a binding callback was handed the id / bind metadata of another statement"),
    "CapExceeded": ("cap-exceeded", "the prepared-statement cache exceeded its configured size"),
    "PrepareWaiterNeverReturns": ("prepare-waiter-never-returns", "an executor waiting on a PREPARE that was answered or has failed never returned"),
    "Panic": ("executor-panic", "an execution panicked inside the driver instead of returning a result or an error"),
}


def _write_cfg(ctx, name, spec, ex, lru, fg, fl, canc, uniq, plans, prop="", inv=INVS):
    d = vf._scratch_spec_dir(ctx, "w")
    with open(os.path.join(d, name), "w") as f:
        f.write("SPECIFICATION %s\nCONSTANTS\n  Execs = %s\n  Arity <- MCArity\n  MaxLRU = %s\n  MaxForget = %s\n"
                "  MaxFail = %s\n  Cancellable = %s\n  MaxReprepare = 3\n  UniqueIds = %s\n  Plans <- %s\n" % (spec, ex, lru, fg, fl, canc, uniq, plans))
        if inv:
            f.write("INVARIANTS %s\n" % inv)
        if prop:
            f.write("PROPERTY %s\n" % prop)
        f.write("CHECK_DEADLOCK FALSE\n")
    return name


def _model_pass(ctx, m, workers, timeout, heap):
    name, spec, ex, lru, fg, fl, canc, uq, plans, prop = m
    cfg = _write_cfg(ctx, "MC_Prepare_%s.cfg" % name, spec, ex, lru, fg, fl, canc, uq, plans, prop)
    r = vf.run_tlc(ctx, "MC_Prepare", cfg, workers=workers, timeout=timeout, heap=heap, name="mc_" + name)
    return m, r


def _fix(x):
    """ToJson prints an empty function / set as []."""
    return {} if isinstance(x, list) else x


QVIA = ["args", "bind", "qbind"]
ARITY = {"A": 1, "B": 2}   # MCArity of MC_Prepare.tla


def translate(plan, steps, name, n, maxlru, uniq, flip=0):
    """A behaviour of Gen_Prepare (list of (action, projection)) -> commands for the Go replayer, each with the
    observable state TLC computed for the moment the driver has come to rest after it."""
    plan = _fix(plan)
    emap = {e: i + 1 for i, e in enumerate(sorted(plan))}
    execs = []
    for e in sorted(plan):
        p = plan[e]
        batch = len(p["items"]) > 1
        # how each statement enters the query / batch is not the model's business (the property does not
        # distinguish): every way the API offers is rotated through the behaviours
        items = [dict(s=it["s"], n=it["n"], via=(["bind", "args"][(i + flip) % 2] if batch else QVIA[(n + emap[e] + flip) % 3]))
                 for i, it in enumerate(p["items"])]
        execs.append(dict(e=emap[e], kind="batch" if batch else "query", items=items, toklast=bool((n + flip) % 2),
                          conn=[p["conn"][0], KS[p["conn"][1]]]))
    hosts = max(int(p["conn"][0][1:]) for p in plan.values())
    conns = 2 if any(p["conn"][1] == "k2" for p in plan.values()) else 1
    idx = [i for i, (a, st) in enumerate(steps) if a["a"] in CMDS]
    # progress counters the projection of the state does not show: lookups per executor, remove(key) of failed flights
    looks, failed, removes, prog = collections.Counter(), set(), 0, []
    for a, st in steps:
        if a["a"] in ("Start", "Lookup"):
            looks[str(emap[a["e"]])] += 1
        elif a["a"] in ("PrepFail", "PrepLost"):
            failed.add(a["f"])
        elif a["a"] == "Done" and a["f"] in failed:
            removes += 1
        prog.append((dict(looks), removes))
    out = []
    for j, i in enumerate(idx):
        end = (idx[j + 1] - 1) if j + 1 < len(idx) else len(steps) - 1
        a, st = steps[i][0], steps[end][1]
        if not st["quiet"]:
            break
        done = _fix(st["done"])
        exp = dict(prep=sorted(st["prep"]), pf=sorted(st["pf"]), exec=sorted(emap[e] for e in st["exec"]),
                   pe=sorted(emap[e] for e in st["pe"]), done={str(emap[e]): RES[r] for e, r in done.items()}, len=st["len"],
                   looks=prog[end][0], removes=prog[end][1])
        c = dict(a=a["a"], e=emap.get(a["e"], 0), f=a["f"], key=[], kind=a["kind"], exp=exp)
        if a["a"] == "Forget":
            c["key"] = [a["k"][0], KS[a["k"][1]], a["k"][2]]
        if a["a"] == "PrepFail":   # answered with an ERROR frame / with a frame the driver cannot parse, in turn
            c["kind"] = ["error", "garbage"][(n + a["f"] + flip) % 2]
        out.append(c)
    # two hosts: reached at one IP address / different ports in every second behaviour (hosts are told apart by id)
    return dict(n=n, name=name + ("/flip" if flip else ""), max=maxlru, uniq=uniq, hosts=hosts, conns=conns,
                sameip=(hosts > 1 and (n + flip) % 2 == 0), execs=execs, steps=out)


def variants(plan, steps, name, scenarios, maxlru, uniq):
    """One scenario per behaviour; behaviours with a batch or an answered-but-failing PREPARE are replayed a second
    time with Batch.Query / Batch.Bind and ERROR answer / unparsable answer swapped."""
    scenarios.append(translate(plan, steps, name, len(scenarios) + 1, maxlru, uniq))
    if any(len(p["items"]) > 1 for p in _fix(plan).values()) or any(a["a"] == "PrepFail" for a, _ in steps):
        scenarios.append(translate(plan, steps, name, len(scenarios) + 1, maxlru, uniq, flip=1))
    # a wrong number of values (incl. none): once for every way values reach a statement
    if any(it["n"] != ARITY[it["s"]] for p in _fix(plan).values() for it in p["items"]):
        for fl in (1, 2):
            scenarios.append(translate(plan, steps, name, len(scenarios) + 1, maxlru, uniq, flip=fl))


def _target(ctx, t):
    name, inv, plans, lru, fg, fl = t
    cfg = _write_cfg(ctx, "Gen_Prepare_t_%s.cfg" % name, "GenSpec", E3, lru, fg, fl, "{}", "TRUE", plans, inv=inv)
    dump = os.path.join(ctx.tmp, "target_%s.json" % name)
    r = vf.run_tlc(ctx, "Gen_Prepare", cfg, workers=1, timeout=900, heap="3g", name="gen_" + name,
                   extra=["-dumpTrace", "json", dump, "-noGenerateSpecTE"], quiet=True)
    if r.violated != inv or not os.path.exists(dump):
        raise vf.Inconclusive("TLC found no behaviour for target %s (%s %s)\n%s" % (name, r.violated, r.error, r.out[-1500:]))
    states = json.load(open(dump))["counterexample"]["state"]
    steps = [(s[1]["last"], s[1]["proj"]) for s in states if s[1]["last"]["a"] != "Init"]
    return t, r, states[0][1]["S"]["plan"], steps


def _walks(ctx, lru, uniq, num, seed):
    cfg = _write_cfg(ctx, "Gen_Prepare_w_%d_%s.cfg" % (lru, uniq), "WalkSpec", E3, lru, 2, 1, '{"e2"}', uniq, "PlansAll",
                     inv="EmitWalk")
    r = vf.run_tlc(ctx, "Gen_Prepare", cfg, workers=1, timeout=1200, heap="3g", simulate="num=%d" % num, depth=300,
                   name="walk_%d_%s" % (lru, uniq), extra=["-seed", str(seed)], quiet=True)
    if not r.ok:
        raise vf.Inconclusive("walk generation failed: %s\n%s" % (r.error or r.violated, r.out[-1500:]))
    seen, res = set(), []
    for w in vf.tlc_printed(r.out, "WALK"):
        k = json.dumps(w, sort_keys=True)
        if k not in seen:
            seen.add(k)
            res.append(w)
    return lru, uniq, res


def _monitor(ctx, path, tag):
    r = vf.run_tlc(ctx, "Trace_Prepare", "Trace_Prepare.cfg", workers=1, heap="3g", timeout=1500, env={"VF_TRACE": path},
                   deadlock=False, name="mon_" + tag, quiet=True)
    if not r.ok:
        raise vf.Inconclusive("Trace_Prepare failed on %s: %s\n%s" % (path, r.error or r.violated, r.out[-2500:]))
    done = re.findall(r'<<"MONDONE", (\d+)>>', r.out)
    return vf.tlc_printed(r.out, "MONVIOL"), vf.tlc_printed(r.out, "MONDRIFT"), (int(done[-1]) if done else 0), r


def _shard(ctx, recs, k, tag):
    """Split a trace file at scenario boundaries into <= k files of similar size."""
    blocks, cur = [], None
    for r in recs:
        if r["ev"] == "init":
            cur = []
            blocks.append(cur)
        if cur is not None:
            cur.append(r)
    blocks.sort(key=len, reverse=True)
    shards = [[] for _ in range(max(1, min(k, len(blocks))))]
    for b in blocks:
        min(shards, key=len).extend(b)
    paths = []
    for i, s in enumerate(shards):
        if s:
            p = os.path.join(ctx.tmp, "mon_%s_%d.ndjson" % (tag, i))
            vf.write_ndjson(p, s)
            paths.append(p)
    return paths, {b[0]["scn"]: b for b in blocks}


def _summary(out, what):
    m = re.search(r"^VFSUMMARY (.*)$", out, re.M)
    if not m:
        raise vf.Inconclusive("%s driver gave no summary:\n%s" % (what, out[-3000:]))
    return json.loads(m.group(1))


def _report(ctx, viols, drifts, blocks, byname):
    """MONVIOL -> violations (one per scenario and kind), MONDRIFT -> drift (first note of a scenario)."""
    seen = set()
    for v in viols:
        key, what = KEYS.get(v["v"], ("trace-" + v["v"], v["v"]))
        blk = blocks.get(v["scn"], [])
        if (v["scn"], key) in seen:
            continue
        seen.add((v["scn"], key))
        head = blk[0] if blk else {}
        ctx.violation(key, "%s [%s scenario %s%s, cache size %s, executor %s, key %s]" % (
            what, head.get("mode", "?"), v["scn"], (" " + head["name"]) if head.get("name") else "", head.get("cap", "?"),
            v["e"], "/".join(v["key"])),
            dict(kind=v["v"], scenario=head, trace=blk[:800],
                 behaviour=byname.get(v["scn"] - 100000) if v["scn"] > 100000 else None))
    dseen = set()
    for d in drifts:
        if d["scn"] in dseen:
            continue
        dseen.add(d["scn"])
        blk = blocks.get(d["scn"], [])
        ctx.add_drift("scenario %s (%s): the code did not follow Prepare.tla: %s (executor %s, key %s)" % (
            d["scn"], blk[0].get("mode", "?") if blk else "?", d["d"], d["e"], "/".join(d["key"])))
    return dseen


def _replay(ctx):
    """--replay: the TLC behaviours stored in a replay file are forced onto the current code again and TLC
    re-evaluates the traces (the fresh ones of the behaviours, the recorded ones of free-running scenarios)."""
    rp = json.load(open(ctx.replay))
    recs, behs = [], {}
    for v in rp.get("violations", []):
        d = v.get("detail") or {}
        if d.get("behaviour"):
            behs[d["behaviour"]["n"]] = d["behaviour"]
        elif d.get("trace"):
            recs += d["trace"]
    vf._scratch_spec_dir(ctx, "w")
    if behs:
        sp = os.path.join(ctx.tmp, "c14_scenarios.ndjson")
        vf.write_ndjson(sp, list(behs.values()))
        binary = vf.build_gotest(ctx, ".", ["common", "c14"])
        rc, out = vf.run_gotest(ctx, binary, "^TestVfC14Replay$", {"VF_C14_SCENARIOS": sp, "VF_C14_PAR": 1}, 600)
        ctx.log("replayed %d behaviours on the current code: %s" % (len(behs), _summary(out, "replay")))
        recs += vf.read_ndjson(os.path.join(ctx.tmp, "c14_replay.ndjson"))
    if not recs:
        raise vf.Inconclusive("the replay file holds no trace")
    paths, blocks = _shard(ctx, recs, 1, "replay")
    v, d, n, r = _monitor(ctx, paths[0], "replay")
    _report(ctx, v, d, blocks, behs)
    ctx.cov = dict(states=r.distinct, transitions=r.generated,
                   traces_validated_against_impl=len(blocks) - len({x["scn"] for x in v}),
                   samples=[dict(kind="replayed scenario", scenario=(list(blocks.values())[0][0] if blocks else None))])


def run(ctx):
    quick = ctx.tier == "quick"
    ctx.level = "model_checking"
    if getattr(ctx, "replay", None):
        return _replay(ctx)
    models = MODEL_QUICK + ([] if quick else MODEL_THOROUGH)
    nwalk = 30 if quick else 400
    nfree = 24 if quick else 400
    pool = cf.ThreadPoolExecutor(max_workers=14)   # everything TLC does starts at once
    vf._scratch_spec_dir(ctx, "w")   # create the scratch copy of spec/ before the threads use it

    # ---- 1. everything TLC and the Go compiler can do side by side
    fut_build = pool.submit(vf.build_gotest, ctx, ".", ["common", "c14"])
    # quick tier: the interleaving targets and the batch that meets UNPREPARED; arity is also reached by the walks
    fut_targets = [pool.submit(_target, ctx, t) for t in (TARGETS[:9] if quick else TARGETS)]
    fut_walks = [pool.submit(_walks, ctx, lru, uq, nwalk // 2, ctx.seed * 7919 + lru) for lru, uq in ((1, "TRUE"), (2, "FALSE"))]
    fut_models = [pool.submit(_model_pass, ctx, m, 4 if quick else 6, 900 if quick else 3000, "4g" if quick else "6g")
                  for m in models]

    # ---- 2. behaviours -> scenarios
    scenarios = []
    for f in fut_targets:
        t, r, plan, steps = f.result()
        variants(plan, steps, "target:" + t[0], scenarios, t[3], True)
    ntarget = len(scenarios)
    for f in fut_walks:
        lru, uq, ws = f.result()
        for w in ws:
            steps = [(s["act"], s["st"]) for s in w["steps"]]
            variants(w["plan"], steps, "walk:lru%d" % lru, scenarios, lru, uq == "TRUE")
    scenarios = [s for s in scenarios if s["steps"]]
    ctx.log("scenarios from TLC: %d targets + %d walks, %d commands" % (ntarget, len(scenarios) - ntarget,
                                                                       sum(len(s["steps"]) for s in scenarios)))
    sp = os.path.join(ctx.tmp, "c14_scenarios.ndjson")
    vf.write_ndjson(sp, scenarios)

    # ---- 3. drive the real code: replay of the behaviours, free-running seeded scenarios
    binary = fut_build.result()
    f_rep = pool.submit(vf.run_gotest, ctx, binary, "^TestVfC14Replay$", {"VF_C14_SCENARIOS": sp, "VF_C14_PAR": 4}, 1500)
    f_free = pool.submit(vf.run_gotest, ctx, binary, "^TestVfC14Free$", {"VF_C14_SCEN": nfree, "VF_C14_PAR": 4}, 1500)
    # bursts of simultaneous first-time executions (own output directory: the drivers run side by side)
    bdir = os.path.join(ctx.tmp, "burst")
    os.makedirs(bdir, exist_ok=True)
    nburst, brounds = (BURST_QUICK if quick else BURST_THOROUGH)
    f_burst = pool.submit(vf.run_gotest, ctx, binary, "^TestVfC14Burst$",
                          {"VF_C14_SCEN": nburst, "VF_C14_ROUNDS": brounds, "VF_C14_PAR": 2, "VF_OUT": bdir}, 1500)
    f_race = None
    if not quick:
        # the same free-running scenarios (other seeds) under the race detector
        rdir = os.path.join(ctx.tmp, "race")
        os.makedirs(rdir, exist_ok=True)
        rbin = vf.build_gotest(ctx, ".", ["common", "c14"], race=True)
        f_race = pool.submit(vf.run_gotest, ctx, rbin, "^TestVfC14Free$",
                             {"VF_C14_SCEN": 120, "VF_C14_PAR": 4, "VF_C14_BASE": 50000, "VF_OUT": rdir}, 1500)
    rc1, out1 = f_rep.result()
    rc2, out2 = f_free.result()
    s_rep, s_free = _summary(out1, "replay"), _summary(out2, "free")
    ctx.log("replay: %s" % s_rep)
    ctx.log("free: %s" % s_free)
    if s_free.get("failed"):
        raise vf.Inconclusive("free-running scenarios could not be set up: %s" % s_free.get("first_error"))
    results = vf.read_ndjson(os.path.join(ctx.tmp, "c14_replay_results.ndjson"))
    byname = {s["n"]: s for s in scenarios}
    followed = 0
    for r in results:
        if r.get("err"):
            raise vf.Inconclusive("replay scenario %s could not be set up: %s" % (r["name"], r["err"]))
        if r["diverged"]:
            ctx.add_drift("replay of TLC behaviour %s #%d: the code left the behaviour at command %d: %s" % (
                r["name"], r["n"], r["diverged"], r["reason"]))
        else:
            followed += 1

    # ---- 4. TLC evaluates the property on every recorded execution
    recs = []
    for fn in ("c14_replay.ndjson", "c14_free.ndjson"):
        p = os.path.join(ctx.tmp, fn)
        if not os.path.exists(p):
            raise vf.Inconclusive("no trace file %s" % fn)
        recs += vf.read_ndjson(p)
    rc4, out4 = f_burst.result()
    s_burst = _summary(out4, "burst")
    ctx.log("burst: %s" % s_burst)
    if s_burst.get("failed"):
        raise vf.Inconclusive("burst scenarios could not be set up: %s" % s_burst.get("first_error"))
    recs += vf.read_ndjson(os.path.join(bdir, "c14_burst.ndjson"))
    races = 0
    if f_race is not None:
        rc3, out3 = f_race.result()
        s_race = _summary(out3, "free (race detector)")
        races = out3.count("WARNING: DATA RACE")
        ctx.log("free under the race detector: %s, %d race reports" % (s_race, races))
        if races:
            i = out3.index("WARNING: DATA RACE")
            ctx.add_drift("the race detector reported %d data race(s) while the prepared-statement paths ran (not decided by "
                          "C14's statement; see C17): %s" % (races, out3[i:i + 1500].replace("\n", " | ")))
        recs += vf.read_ndjson(os.path.join(ctx.tmp, "race", "c14_free.ndjson"))
    if sum(1 for r in recs if r["ev"] == "n_execute") == 0 or sum(1 for r in recs if r["ev"] == "c_miss") == 0:
        raise vf.Inconclusive("the drivers recorded no PREPARE/EXECUTE activity")
    paths, blocks = _shard(ctx, recs, 3 if quick else 10, "all")
    viols, drifts, lines = [], [], 0
    mons = list(pool.map(lambda p: _monitor(ctx, p, os.path.basename(p)[:-7]), paths))
    for (v, d, n, r), p in zip(mons, paths):
        want = sum(1 for _ in open(p))
        if n != want:
            raise vf.Inconclusive("Trace_Prepare stopped at line %d of %d in %s\n%s" % (n, want, p, r.out[-1500:]))
        viols += v
        drifts += d
        lines += n
    ctx.log("monitor: %d scenarios, %d events evaluated by TLC; %d violations, %d drift notes" % (
        len(blocks), lines, len(viols), len(drifts)))
    dseen = _report(ctx, viols, drifts, blocks, byname)
    bad_scn = dseen | {v["scn"] for v in viols}

    # ---- 5. model passes
    states = trans = 0
    mcs = []
    for f in fut_models:
        m, r = f.result()
        if not r.ok:
            raise vf.Inconclusive("model pass %s failed: violated=%s error=%s\n%s" % (m[0], r.violated, r.error,
                                                                                     "\n".join(r.out.splitlines()[-40:])))
        states += r.distinct
        trans += r.generated
        mcs.append(dict(cfg=m[0], spec=m[1], plans=m[8], max_lru=m[3], max_forget=m[4], max_fail=m[5], cancellable=m[6],
                        unique_ids=m[7], liveness=m[9], distinct=r.distinct, generated=r.generated, depth=r.depth,
                        wall_s=round(r.wall, 1)))
    pool.shutdown()

    sample_scn = scenarios[0] if scenarios else None
    ctx.cov = dict(
        states=states, transitions=trans,
        traces_validated_against_impl=len(blocks) - len(bad_scn),
        model_configs=mcs,
        behaviours_from_tlc=len(scenarios), target_behaviours=ntarget, behaviours_followed_by_code=followed,
        commands_replayed=sum(r["steps"] for r in results),
        free_scenarios=s_free["scenarios"], free_executors=s_free["execs"], executor_hangs=s_free["hangs"],
        race_detector_reports=races, burst_scenarios=s_burst["scenarios"], burst_rounds=s_burst["scenarios"] * s_burst["rounds"],
        burst_executors=s_burst["execs"],
        events_evaluated_by_tlc=lines, scenarios_with_drift=len(dseen), scenarios_with_violation=len({v["scn"] for v in viols}),
        event_mix=dict(collections.Counter(r["ev"] for r in recs)),
        samples=[dict(kind="tlc behaviour replayed on the real code", name=sample_scn["name"], cache_size=sample_scn["max"],
                      execs=sample_scn["execs"],
                      commands=[(c["a"], c["e"] or c["f"] or "/".join(c["key"])) for c in sample_scn["steps"]],
                      expected_final=sample_scn["steps"][-1]["exp"])] if sample_scn else [],
    )
    ctx.assumptions += [
        "bounded instances: 3 executors (4 in one target), 2 statements, 2 hosts / 2 keyspaces, cache size 1..2, <= 2 forgets, "
        "<= 1 failing PREPARE; the larger instances with the partial-order reduction NextPOR of MC_Prepare.tla",
        "two keyspaces inside one session are produced in-package (Conn.UseKeyspace on a pooled connection); through the "
        "public API every connection of a session has the same keyspace",
        "cache operations are attributed to executors by goroutine (runtime.Stack): an execution runs its lookups on the "
        "caller's goroutine, the winner's PREPARE on a goroutine it created",
        "evictPreparedID has no hook when it evicts nothing: its move-to-front is placed at the executor's next lookup; "
        "the LRU order is not checked while that placement is ambiguous",
    ]
