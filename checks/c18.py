"""C18 - compression is transparent and only used as negotiated.

Compress.tla holds reference DECODERS for the snappy block format and Cassandra's length-prefixed LZ4
block format (strict / lenient reading), and the negotiation / flag rules of the property.
spec -> code: Gen_Compress.tla assembles compressed bodies element by element (encodings the driver's
encoders never produce) with structurally corrupted variants; the Go harnesses feed them to the real
SnappyCompressor.Decode (package gocql) and LZ4Compressor.Decode (module /repo/lz4).
code -> spec: bodies of a boundary family are compressed by the real encoders; every request kind is
built by the real framer with and without compressor; real sessions run against the scripted node for
every SUPPORTED set x configured compressor and every frame on the wire is captured; flagged / corrupt
responses are sent to real sessions in child processes.  All of it is recorded as vectors and judged
by TLC (Trace_Compress.tla).
"""
import json, os, re, collections, concurrent.futures as cf
import vf

SHARDS = int(os.environ.get("VERIF_TLC_WORKERS", "0")) or min(8, vf.NCPU)


def _run_go(ctx, binary, test, env, timeout=900):
    rc, out = vf.run_gotest(ctx, binary, "^%s$" % test, env=env, timeout=timeout)
    m = re.search(r"^VFSUMMARY (.*)$", out, re.M)
    if not m or "--- PASS" not in out:
        raise vf.Inconclusive("driver %s failed:\n%s" % (test, out[-3000:]))
    return json.loads(m.group(1))


def _judge(ctx, name, vecs):
    """Run Trace_Compress over vecs, sharded; returns (monviol list with 'vec', undecided count, states, transitions)."""
    if not vecs:
        return [], 0, 0, 0
    n = min(SHARDS, max(1, len(vecs) // 50))
    vecs = [dict(v, id=i, oid=v["id"]) for i, v in enumerate(vecs)]     # ids unique over the sources
    # balance by size: biggest first, round robin
    order = sorted(range(len(vecs)), key=lambda i: -len(json.dumps(vecs[i])))
    shards = [[] for _ in range(n)]
    for k, i in enumerate(order):
        shards[k % n].append(vecs[i])

    def one(k):
        p = os.path.join(ctx.tmp, "tc_%s_%d.ndjson" % (name, k))
        vf.write_ndjson(p, shards[k])
        r = vf.run_tlc(ctx, "Trace_Compress", "Trace_Compress.cfg", workers=1, heap="3g", timeout=1500, deadlock=False,
                       env={"VF_TRACE": p}, name="tc_%s_%d" % (name, k), quiet=True)
        if not r.ok or r.distinct != len(shards[k]) + 1:
            raise vf.Inconclusive("Trace_Compress failed on %s shard %d: %s\n%s" % (name, k, r.error or r.violated, r.out[-2000:]))
        mon = vf.tlc_printed(r.out, "MONVIOL")
        for m in mon:
            m["vec"] = shards[k][m["line"] - 1]
        return mon, len(vf.tlc_printed(r.out, "UNDECIDED")), r.distinct, r.generated

    mon, und, st, tr = [], 0, 0, 0
    with cf.ThreadPoolExecutor(n) as ex:
        for a, b, c, d in ex.map(one, range(n)):
            mon += a
            und += b
            st += c
            tr += d
    ctx.log("TLC judged %d %s vectors in %d shards: %d with mismatches, %d undecided" % (len(vecs), name, n, len(mon), und))
    return mon, und, st, tr


def _short(l, n=24):
    return l if len(l) <= n else l[:n] + ["...(%d bytes)" % len(l)]


def _declared_lz4(stream):
    return ((stream[0] * 256 + stream[1]) * 256 + stream[2]) * 256 + stream[3] if len(stream) >= 4 else -1


def _codec_key(alg, kind, v):
    cls = v.get("cls", "").replace("gen:", "")
    if v["panic"]:
        return "%s-%s-panic-%s" % (alg, v["k"], cls)
    if v["k"] == "enc":
        return "%s-encode-%s-%s" % (alg, "error" if kind == "encode-error" else "not-decodable", "empty" if not v["body"] else cls)
    if kind.startswith("corrupt-stream-accepted"):
        reason = kind.split(":", 1)[1]
        if alg == "lz4" and _declared_lz4(v["stream"]) != v["outlen"]:
            return "lz4-decode-corrupt-accepted-declared-length-not-checked"
        if cls == "truncated-in-match-length":
            return "lz4-decode-corrupt-accepted-truncated-in-match-length"
        # the output has the declared length: the decoder itself took a structurally invalid block
        return "%s-decode-corrupt-accepted-%s" % (alg, reason)
    return "%s-decode-%s-%s" % (alg, kind, cls)


def _codec_what(alg, kind, v):
    if v["k"] == "enc":
        return "%s Encode of a %d-byte body (%s) gave %s, which the reference decoder does not read back as the input%s" % (
            alg, len(v["body"]), v.get("cls"), _short(v["enc"]), (" (error %s)" % v["err"]) if v["err"] else "")
    return "%s Decode of %s [%s] returned %d bytes %s, error %r%s: %s" % (
        alg, _short(v["stream"]), v.get("cls"), v["outlen"], _short(v["out"], 12), v["err"],
        (", PANIC " + v["panic"]) if v["panic"] else "", kind)


def _select(ctx, vecs):
    """Quick tier: TLC judges everything the real encoder produced, every assembled valid stream, every panic, and a
    rotating sixth of the corrupted variants; the thorough tier judges everything."""
    if ctx.tier != "quick":
        return vecs, 0
    sel = []
    for v in vecs:
        cls = v.get("cls", "")
        always = v["panic"] or v["k"] == "enc" or cls in ("real-encoder-output", "gen:assembled", "gen:offset-beyond-output",
                                                                 "gen:truncated-in-match-length", "gen:offset-zero") or cls.startswith("gen:length-prefix-huge")
        if v["k"] == "enc" and len(v["body"]) > 1100 and (v["id"] + ctx.seed) % 3 != 0 and not v["panic"]:
            always = False      # bodies above 1 KiB: a third per run (the TLA+ decoders work byte by byte)
        if cls == "real-encoder-output" and len(v["out"]) > 1100 and (v["id"] + 1 + ctx.seed) % 3 != 0:
            always = False
        if always or (v["k"] == "dec" and (v["id"] + ctx.seed) % 6 == 0 and cls not in ("real-encoder-output",)):
            sel.append(v)
    return sel, len(vecs) - len(sel)


def run(ctx):
    quick = ctx.tier == "quick"
    ctx.level = "exploration"
    # the lz4 copy of the codec driver must be the same file
    a = open(os.path.join(vf.HARNESS, "c18", "zz_vf_c18_codec_test.go")).read()
    b = open(os.path.join(vf.HARNESS, "c18lz4", "zz_vf_c18_codec_test.go")).read()
    if a.replace("package gocql", "package lz4", 1) != b:
        raise vf.Inconclusive("harness/c18lz4/zz_vf_c18_codec_test.go is not the package-lz4 copy of harness/c18/zz_vf_c18_codec_test.go")

    # ---- 1. generators (also the model pass of the reference decoders against the assembler)
    def gen(alg):
        r = vf.tlc_must_pass(ctx, "Gen_Compress", "Gen_Compress_%s.cfg" % alg, workers=max(2, SHARDS // 2), timeout=900,
                             deadlock=False, name="gen_" + alg)
        st = vf.tlc_printed(r.out, "STREAMS")
        if len(st) != r.distinct:
            raise vf.Inconclusive("Gen_Compress(%s) printed %d of %d states" % (alg, len(st), r.distinct))
        return alg, st, r

    streams, gstates, gtrans, nbase = [], 0, 0, {}
    with cf.ThreadPoolExecutor(2) as ex:
        for alg, st, r in ex.map(gen, ["snappy", "lz4"]):
            gstates += r.distinct
            gtrans += r.generated
            nbase[alg] = len(st)
            for s in sorted(st, key=lambda s: json.dumps(s["variants"][0] if s["variants"] else s, sort_keys=True)):
                for v in sorted(s["variants"], key=lambda v: (v["cls"], v["stream"])):
                    streams.append(dict(id=len(streams), alg=alg, cls=v["cls"], stream=v["stream"]))
    sp = os.path.join(ctx.tmp, "streams.ndjson")
    vf.write_ndjson(sp, streams)
    ctx.log("generated %d assembled streams (%s base streams) incl. corrupted variants" % (len(streams), nbase))

    # ---- 2. build, drive the real code
    bin_gocql = vf.build_gotest(ctx, ".", ["common", "c18"])
    bin_lz4 = vf.build_gotest(ctx, "lz4", ["c18lz4"])
    paths = {k: os.path.join(ctx.tmp, "vec_%s.ndjson" % k) for k in ("snappy", "lz4", "frames", "blobs", "wire", "resp", "push", "mixed")}
    jobs = [
        ("snappy", bin_gocql, "TestVfC18Codec", {"VF_C18_OUT": paths["snappy"], "VF_C18_STREAMS": sp}),
        ("lz4", bin_lz4, "TestVfC18Codec", {"VF_C18_OUT": paths["lz4"], "VF_C18_STREAMS": sp}),
        ("frames", bin_gocql, "TestVfC18Frames", {"VF_C18_FRAMES": paths["frames"]}),
        ("blobs", bin_gocql, "TestVfC18Blobs", {"VF_C18_BLOBS": paths["blobs"]}),
        ("wire", bin_gocql, "TestVfC18Conns", {"VF_C18_WIRE": paths["wire"]}),
        ("resp", bin_gocql, "TestVfC18Resp", {"VF_C18_RESP": paths["resp"]}),
        ("push", bin_gocql, "TestVfC18Push", {"VF_C18_PUSH": paths["push"]}),
        ("mixed", bin_gocql, "TestVfC18Mixed", {"VF_C18_MIXED": paths["mixed"]}),
    ]
    summ = {}
    with cf.ThreadPoolExecutor(3) as ex:
        for (k, _, _, _), s in zip(jobs, ex.map(lambda j: _run_go(ctx, j[1], j[2], j[3]), jobs)):
            summ[k] = s
    ctx.log("drivers: %s" % json.dumps(summ)[:600])
    if summ["mixed"]["problems"]:
        ctx.add_drift("two-node sessions had problems of the environment: %s" % summ["mixed"]["problems"][:3])
    if summ["mixed"]["vectors"] == 0:
        raise vf.Inconclusive("the two-node sessions produced no compressed answer of node 1: %s" % summ["mixed"])
    if summ["wire"]["problems"]:
        ctx.add_drift("sessions of the negotiation table had functional problems: %s" % summ["wire"]["problems"][:3])
    vec = {k: vf.read_ndjson(p) for k, p in paths.items()}
    for k in vec:
        for v in vec[k]:
            v["src"] = k
    nstream = {alg: sum(1 for s in streams if s["alg"] == alg) for alg in ("snappy", "lz4")}
    for alg in ("snappy", "lz4"):
        got = sum(1 for v in vec[alg] if v.get("cls", "").startswith("gen:"))
        if got + summ[alg]["skipped_huge_declared"] + summ[alg]["boundary_prefix_not_executed"] < nstream[alg]:
            raise vf.Inconclusive("%s driver executed %d of %d generated streams" % (alg, got, nstream[alg]))

    # ---- 3. TLC judges
    agg = collections.OrderedDict()
    notes_nonstrict = []
    states, trans, undecided, judged, unjudged = gstates, gtrans, 0, 0, 0
    chosen = []
    for k in ("snappy", "lz4", "frames", "blobs", "wire", "resp", "push", "mixed"):
        sel, skipped = _select(ctx, vec[k]) if k in ("snappy", "lz4") else (vec[k], 0)
        unjudged += skipped
        chosen += sel
    judged = len(chosen)
    chosen = [dict(v, oid=v["id"]) for v in chosen]
    allmon, undecided, st, tr = _judge(ctx, "all", chosen)
    states += st
    trans += tr
    # vectors not handed to TLC in the quick tier were still executed: a panic there is always judged (selected above)
    for m in allmon:
        v = m["vec"]
        for kind in m["kinds"]:
            if kind == "note-encoding-not-strict":
                notes_nonstrict.append(v)
                continue
            if kind.startswith("drift-"):
                ctx.add_drift("%s: %s" % (kind, {x: (_short(y) if isinstance(y, list) else y) for x, y in v.items() if x not in ("src",)}))
                continue
            if v["k"] in ("enc", "dec"):
                key, what = _codec_key(v["alg"], kind, v), _codec_what(v["alg"], kind, v)
            elif v["k"] == "frame":
                key = "frame-%s-%s-compressor=%s" % (kind, re.sub(r"blob\d+", "incompressible-blob", v["name"]), v["alg"] or "none")
                what = "request %s built by the framer (protocol %d, compressor %s, tracing %s): flags %#x, body on the wire %s, logical body %s%s" % (
                    v["name"], v["proto"], v["alg"] or "none", v["tracing"], v["flags"], _short(v["wire"]), _short(v["logical"]),
                    (" PANIC " + v["panic"]) if v["panic"] else "")
            elif v["k"] == "wire":
                key = "wire-%s-op=%d-configured=%s-%s%s" % (kind, v["op"], v["configured"] or "none",
                                                           "advertised" if v["configured"] in v["advertised"] else "not-advertised",
                                                           ("-auth=%s%d" % (v["auth"], v["rounds"])) if v.get("auth") else "")
                what = "connection with compressor %s, SUPPORTED COMPRESSION=%s: STARTUP carried COMPRESSION=%r; frame %d of connection %d " \
                       "op=%d flags=%#x body %s (logical %s)" % (v["configured"] or "none", v["advertised"] if v["advkey"] else "absent",
                                                                 v["startup"], v["idx"], v["conn"], v["op"], v["flags"], _short(v["wire"]),
                                                                 _short(v["logical"]) if v["haslog"] else "n/a")
            elif v["k"] == "follow":
                key = "follow-%s-%s-negotiated=%s-%s" % (kind, v["stage"], v["negotiated"] or "none", v["kind"])
                what = "after a %s response (%s, compression flag %s; first caller got %s) on a connection with compressor %s the FOLLOWING " \
                       "request on that connection got %s %s" % (v["stage"], v["kind"], v["flag"], v["first"], v["negotiated"] or "none",
                                                                 v["outcome"], v["detail"])
            else:
                key = "resp-%s-%s-negotiated=%s-%s" % (kind, v["stage"], v["negotiated"] or "none", v["kind"])
                what = "%s response (%s, compression flag %s) on a connection with compressor %s: caller got %s %s" % (
                    v["stage"], v["kind"], v["flag"], v["negotiated"] or "none", v["outcome"], v["detail"])
            agg.setdefault(key, []).append((what, v))
    for key, l in agg.items():
        what, v = l[0]
        ctx.violation(key, what + (" (+%d more of this class)" % (len(l) - 1) if len(l) > 1 else ""),
                      {x: y for x, y in v.items() if x != "src"})
    if notes_nonstrict:
        v = notes_nonstrict[0]
        ctx.notes.append("observation (not judged): %d encoder outputs decode to the input only under the lenient reading, e.g. %s "
                         "Encode(%d-byte body) = %s (an LZ4 block without any token for the empty body)" % (
                             len(notes_nonstrict), v["alg"], len(v["body"]), v["enc"]))
    for alg in ("snappy", "lz4"):
        if summ[alg]["big_bad"]:
            ctx.notes.append("large-body Go round trip (not decided by the specification) FAILED for %s: %s" % (alg, summ[alg]["big_bad"]))
        if summ[alg]["boundary_prefix_not_executed"]:
            ctx.notes.append("%s: %d streams with a declared length at the 2^31 / 2^32 boundary could not be executed (the child "
                             "process ended, e.g. the runtime could not allocate what the prefix says) - not judged" % (
                                 alg, summ[alg]["boundary_prefix_not_executed"]))
        if summ[alg]["skipped_huge_declared"]:
            ctx.notes.append("%s: %d corrupted streams not executed because their length prefix would make Decode allocate > 64 MiB "
                             "(allocation from untrusted lengths is property C05's subject)" % (alg, summ[alg]["skipped_huge_declared"]))

    # ---- 4. binding probe: falsified real vectors must be rejected
    _probe(ctx, vec, {(v["src"], v["oid"]) for v in chosen}, {(m["vec"]["src"], m["vec"]["oid"]) for m in allmon})

    # ---- evidence
    def nontrivial(v):
        if v["k"] == "enc":
            return len(v["body"]) > 0 and len(v["enc"]) < len(v["body"])      # the encoder really compressed (copies present)
        if v["k"] == "dec":
            return len(v["stream"]) > 5
        if v["k"] in ("frame", "wire"):
            return v["flags"] % 2 == 1
        return v.get("flag", False)
    allv = [v for k in vec for v in vec[k]]
    distinct = {json.dumps([v["k"], v.get("alg"), v.get("enc") or v.get("stream") or v.get("wire") or v.get("body")]) for v in chosen if nontrivial(v)}
    ops = sorted({v["op"] for v in vec["wire"]})
    enc_s = next((v for v in vec["lz4"] if v["k"] == "enc" and 20 < len(v["body"]) < 40 and len(v["enc"]) < len(v["body"])), vec["lz4"][0])
    dec_s = next((v for v in vec["snappy"] if v.get("cls") == "gen:assembled" and 8 < len(v["stream"]) < 30), vec["snappy"][0])
    wire_s = next((v for v in vec["wire"] if v["flags"] % 2 == 1 and v["op"] == 10), vec["wire"][0])
    ctx.cov = dict(
        evaluations=judged, distinct_nontrivial=len(distinct),
        rule="distinct (kind, codec, compressed bytes) among the vectors judged by TLC: encoder outputs shorter than their input, decoder inputs longer than 5 "
             "bytes, request frames with the compression flag set, flagged responses",
        executed_in_go=len(allv), judged_by_tlc=judged, executed_not_judged_quick_sample=unjudged, undecided_by_reference=undecided,
        states=states, transitions=trans,
        generated_base_streams=nbase, generated_streams=len(streams),
        boundary_length_prefixes_executed={a: summ[a]["boundary_prefix_run"] for a in ("snappy", "lz4")},
        encoder_bodies={a: summ[a]["enc"] for a in ("snappy", "lz4")}, decoder_inputs={a: summ[a]["dec"] for a in ("snappy", "lz4")},
        request_kinds_framer=len({v["name"] for v in vec["frames"]}), framer_vectors=len(vec["frames"]),
        incompressible_blob_frames=len(vec["blobs"]), incompressible_blob_sizes=len({v["blob"] for v in vec["blobs"]}),
        negotiation_table=dict(exhaustive=True, sessions=summ["wire"]["sessions"], frames=len(vec["wire"]), opcodes_on_wire=ops,
                               authentication=["none", "PasswordAuthenticator", "multi-round x 0,1,2 challenges"],
                               auth_responses_on_wire=summ["wire"]["auth_responses"],
                               auth_responses_flagged=sum(1 for v in vec["wire"] if v["op"] == 15 and v["flags"] % 2 == 1),
                               supported_sets=9, configured=["none", "snappy", "lz4", "vfxor"], protocols=[3, 4],
                               frames_without_logical_pair=summ["wire"]["unpaired"]),
        response_scenarios=len(vec["resp"]), response_crashes=summ["resp"]["crashes"],
        server_to_driver=dict(scenarios=summ["push"]["scenarios"], crashes=summ["push"]["crashes"],
                              frames_forwarded=sum(1 for v in vec["push"] if v["k"] == "srv"),
                              compressed_frames=sum(1 for v in vec["push"] if v["k"] == "srv" and v["flag"]),
                              compressed_pushed_events=sum(1 for v in vec["push"] if v["k"] == "srv" and v["flag"] and v["stream"] < 0),
                              opcodes=sorted({v["op"] for v in vec["push"] if v["k"] == "srv"}),
                              response_flag_bytes=sorted({v["fflags"] for v in vec["push"] if v["k"] == "srv"}),
                              big_rows_results_compressed_below_rows_x_cols_x_4=sum(
                                  1 for v in vec["push"] if v["k"] == "srv" and v["flag"] and v["stage"].startswith("rows-250")
                                  and len(v["body"]) < 250 * 2 * 4)),
        following_requests=sum(1 for v in vec["resp"] if v["k"] == "follow"),
        large_bodies_go_roundtrip_only=dict(max_bytes=summ["snappy"]["big_max"], ok={a: summ[a]["big_ok"] for a in ("snappy", "lz4")}),
        samples=[dict(kind="enc", alg="lz4", body=enc_s.get("body"), enc=enc_s.get("enc")),
                 dict(kind="dec", alg="snappy", stream=dec_s.get("stream"), out=dec_s.get("out"), err=dec_s.get("err")),
                 dict(kind="wire", configured=wire_s["configured"], advertised=wire_s["advertised"], op=wire_s["op"], flags=wire_s["flags"],
                      wire=_short(wire_s["wire"], 40), logical=_short(wire_s["logical"], 40))],
    )
    ctx.assumptions += [
        "bodies up to 4 KiB are decided by the TLA+ reference decoders; 64 KiB - %d MiB bodies are only round-tripped in Go" % (summ["snappy"]["big_max"] >> 20),
        "package gocql cannot import the lz4 module: sessions and the framer use a literals-only stand-in named lz4; the real "
        "LZ4Compressor is driven inside module /repo/lz4",
        "strict/lenient reading of the formats as documented in spec/Compress.tla; streams in between are not judged",
    ]


def _probe(ctx, vec, judged_ids, bad_ids):
    """Binding probe: real vectors with ONE field falsified must be rejected by TLC (and the originals must not be)."""
    def clean(v):       # judged by TLC in the main pass without any complaint
        return (v["src"], v["id"]) in judged_ids and (v["src"], v["id"]) not in bad_ids
    e = next((v for v in vec["snappy"] if v["k"] == "enc" and 12 <= len(v["body"]) <= 40 and clean(v)), None)
    f = next((v for v in vec["frames"] if v["flags"] % 2 == 1 and v["op"] not in (1, 5) and clean(v)), None)
    w = next((v for v in vec["wire"] if v["op"] == 1 and v["startup"] != "" and v["flags"] % 2 == 0 and clean(v)), None)
    r = next((v for v in vec["resp"] if v["flag"] and v["negotiated"] == "" and v["outcome"] == "error" and clean(v)), None)
    pairs = []
    if e:
        e2 = json.loads(json.dumps(e)); e2["enc"][-1] = (e2["enc"][-1] + 1) % 256
        pairs.append((e, e2, "encoded-body-does-not-decode-to-input"))
    if f:
        f2 = json.loads(json.dumps(f)); f2["flags"] -= 1
        pairs.append((f, f2, "unflagged-body-not-plain"))
    if w:
        w2 = json.loads(json.dumps(w)); w2["advertised"] = []
        pairs.append((w, w2, "startup-compression-not-negotiable"))
    if r:
        r2 = json.loads(json.dumps(r)); r2["outcome"] = "value"
        pairs.append((r, r2, "bad-compressed-response-accepted"))
    if len(pairs) < 2:
        if bad_ids:
            return      # the code under test misbehaves so broadly that no clean vector is left; the violations stand
        raise vf.Inconclusive("too few vectors to probe the binding with")
    recs = []
    for orig, bad, _ in pairs:
        recs += [dict(orig, id=len(recs)), dict(bad, id=len(recs) + 1)]
    p = os.path.join(ctx.tmp, "probe.ndjson")
    vf.write_ndjson(p, recs)
    t = vf.run_tlc(ctx, "Trace_Compress", "Trace_Compress.cfg", workers=1, timeout=300, deadlock=False, env={"VF_TRACE": p},
                   name="probe", quiet=True)
    got = {m["line"]: m["kinds"] for m in vf.tlc_printed(t.out, "MONVIOL")}
    for i, (_, _, kind) in enumerate(pairs):
        if not t.ok or kind in got.get(2 * i + 1, []) or kind not in got.get(2 * i + 2, []):
            msg = "binding probe failed: falsified vectors were not rejected with at least the expected aspect (%s): %s" % (kind, got)
            if ctx.violations:      # evidence about the code comes first (exit 1); the probe result becomes a note
                ctx.notes.append(msg)
                return
            raise vf.Inconclusive(msg)
