"""X02 (extension) - the result-consumption API as a state machine and the query-level plumbing around it.

Part 1  Consume.tla: Iter / Scanner / one-shot helpers / CAS helpers.  TLC checks the properties on the whole
        bounded graph, rejects five deliberately wrong variants, dumps every edge; the edges are covered by
        call paths that are replayed on a real Query / Batch / Iter / Scanner over a scripted node and compared
        call by call (result and getter values); seeded random call sequences are recorded and judged by TLC
        (Trace_Consume.tla).
Part 2  QueryLife.tla: Query / Batch objects (pool, defaults, setters, WithContext, wire request, observer,
        metrics); see _life().
"""
import collections, json, os, re, concurrent.futures as cf
import vf

CONSUME_INVS = "TypeOK RowsInOrderOnce CompleteWhenNoError ErrorNotMaskedAsEnd OneShotScan CASReportsApplied ExecReportsError"
CONSUME_PROPS = "StickyError FinalIsFinal CloseReturnsFirstError ErrReturnsFirstError ScannerNeedsNext"
# wrong variant -> the property TLC has to refute it with
CONSUME_WRONG = {
    "close-clears": "CloseReturnsFirstError",
    "scan-error-not-sticky": "CompleteWhenNoError",
    "cas-keeps-applied": "CASReportsApplied",
    "notfound-missing": "OneShotScan",
    "scanner-row-twice": "ScannerNeedsNext",
}
CONSUME_OPS = ["Iter", "Exec", "QScan", "QMapScan", "ScanCAS", "MapScanCAS", "ExecBatch", "ExecBatchCAS",
               "MapExecBatchCAS", "Scan", "MapScan", "SliceMap", "RowData", "Close", "Scanner", "Next", "SScan", "Err"]


GETTERS = dict(nrows="NumRows", cols="Columns", pstate="PageState", wsp="WillSwitchPage", warn="Warnings",
               pay="GetCustomPayload", host="Host")


def _cfg(ctx, name, text):
    d = vf._scratch_spec_dir(ctx, "w")
    with open(os.path.join(d, name), "w") as f:
        f.write(text)
    return name


def _consume_cfg(ctx, name, spec, pages, rows, variant="ok", invs="", props="", extra=""):
    t = "SPECIFICATION %s\nCONSTANTS\n  MaxPages = %d\n  MaxRows = %d\n  Variant = \"%s\"\n" % (spec, pages, rows, variant)
    if invs:
        t += "INVARIANTS %s\n" % invs
    if props:
        t += "PROPERTIES %s\n" % props
    t += extra + "CHECK_DEADLOCK FALSE\n"
    return _cfg(ctx, name, t)


class _Crashed(Exception):
    """The test binary died inside the driver: recorded as a violation, the part's analysis is skipped."""


def _drive(ctx, binary, test, env, timeout, part):
    """Run one driver.  A process that dies with a Go panic / fatal error whose first repository frame on the crashing
    goroutine is driver code (not the harness) is a violation (driver-crashed/<function>); any other death is exit 2."""
    rc, out = vf.run_gotest(ctx, binary, test, env, timeout, check=False)
    if re.search(r"^VFSUMMARY ", out, re.M) and "--- FAIL" not in out:
        return out
    if rc in (124, 137):
        raise vf.Inconclusive("driver %s timed out\n%s" % (test, out[-3000:]))
    m = re.search(r"^(fatal error: .*|panic: .*)$", out, re.M)
    if m:
        rest = out[m.end():]
        g = re.search(r"^goroutine \d+ \[[^\]]*\]:\n((?:.+\n)+)", rest, re.M)
        frames = re.findall(r"^(\S.*)\n\t(\S+\.go):(\d+)", g.group(1) if g else rest[:6000], re.M)
        for fn, file, line in frames:
            if "/repo/" in file and "zz_vf_" not in file:
                fn = re.sub(r"\([^()]*\)$", "", fn.split("/")[-1]).replace("gocql.", "", 1)
                ctx.violation("%s/driver-crashed/%s" % (part, fn),
                              "the process died inside the driver while the %s sequences ran: %s at %s (%s:%s)" % (
                                  part, m.group(1), fn, os.path.basename(file), line),
                              dict(part=part, crash=out[m.start():m.start() + 4000]))
                raise _Crashed()
            if "zz_vf_" in file:
                break
    raise vf.Inconclusive("driver %s did not finish (rc=%s):\n%s" % (test, rc, out[-3000:]))


def _summary(out, what):
    m = re.search(r"^VFSUMMARY (.*)$", out, re.M)
    if not m:
        raise vf.Inconclusive("%s driver gave no summary:\n%s" % (what, out[-3000:]))
    return json.loads(m.group(1))


def _key(x):
    return json.dumps(x, sort_keys=True, separators=(",", ":"))


def cover_paths(inits, edges):
    """Call paths from the initial states that together traverse every edge of the dumped graph at least once.
    Greedy: walk along untraversed edges while there are any; otherwise go to the nearest state that still has
    one (BFS over the whole graph); when none is reachable the path ends and a new one starts at an initial
    state."""
    out = collections.defaultdict(list)
    for i, e in enumerate(edges):
        out[e["_f"]].append(i)
    todo = set(range(len(edges)))
    paths = []

    def nearest(src):
        seen, queue = {src: None}, collections.deque([src])
        while queue:
            u = queue.popleft()
            for i in out.get(u, ()):
                if i in todo:
                    route = [i]
                    while seen[u] is not None:
                        pi = seen[u]
                        route.append(pi)
                        u = edges[pi]["_f"]
                    return route[::-1]
                v = edges[i]["_t"]
                if v not in seen:
                    seen[v] = i
                    queue.append(v)
        return None

    for init in inits:
        while True:
            cur, path = init, []
            while True:
                route = nearest(cur)
                if route is None:
                    break
                for i in route:
                    path.append(i)
                    todo.discard(i)
                    cur = edges[i]["_t"]
            if not path:
                break
            paths.append((init, path))
    if todo:
        raise vf.Inconclusive("%d edges of the dumped graph are not reachable from an initial state" % len(todo))
    return paths


def cover_pairs(inits, edges):
    """Paths that traverse every PAIR of consecutive edges (and every first edge): edge coverage of the line graph.
    An abstract state is reached in every way that differs in its last call before each call is tried from it - the
    real objects hold more state than the abstraction (e.g. a Scanner's staged row after Next returned false)."""
    out = collections.defaultdict(list)
    for i, e in enumerate(edges):
        out[e["_f"]].append(i)
    arcs = []
    for s in inits:
        for j in out.get(s, ()):
            arcs.append(dict(_f="I:" + s, _t="E:%d" % j, j=j))
    for i, e in enumerate(edges):
        for j in out.get(e["_t"], ()):
            arcs.append(dict(_f="E:%d" % i, _t="E:%d" % j, j=j))
    res = []
    for init, route in cover_paths(["I:" + s for s in inits], arcs):
        res.append((init[2:], [arcs[a]["j"] for a in route]))
    return res, len(arcs)


def _consume_model(ctx, quick):
    """Model pass: properties on the whole graph, dead-action check, wrong variants refuted."""
    pages, rows = (2, 2) if quick else (3, 2)
    cfg = _consume_cfg(ctx, "MC_Consume_run.cfg", "Spec", pages, rows, invs=CONSUME_INVS, props=CONSUME_PROPS)
    r = vf.tlc_must_pass(ctx, "MC_Consume", cfg, workers=4, timeout=1200, heap="3g", name="consume_mc")
    res = dict(distinct=r.distinct, generated=r.generated, depth=r.depth, max_pages=pages, max_rows=rows, refuted={})
    # termination of the consumer loops under weak fairness of Scan / Next
    cl = _consume_cfg(ctx, "MC_Consume_live.cfg", "FairSpec", pages, rows, props="IterationEnds")
    rl = vf.tlc_must_pass(ctx, "MC_Consume", cl, workers=2, timeout=1200, heap="3g", name="consume_live")
    res["liveness"] = dict(property="IterationEnds", distinct=rl.distinct)
    for v, prop in CONSUME_WRONG.items():
        c = _consume_cfg(ctx, "MC_Consume_x_%s.cfg" % v, "Spec", 2, 2, variant=v, invs=CONSUME_INVS, props=CONSUME_PROPS)
        rx = vf.run_tlc(ctx, "MC_Consume", c, workers=2, timeout=900, heap="2g", name="consume_x_" + v, quiet=True)
        if rx.violated != prop:
            raise vf.Inconclusive("wrong variant %s of Consume.tla was not refuted by %s (violated=%s error=%s)" % (
                v, prop, rx.violated, rx.error))
        res["refuted"][v] = prop
    return res


def _consume_edges(ctx, quick):
    pages, rows = (2, 2) if quick else (3, 2)
    cfg = _consume_cfg(ctx, "MC_Consume_edges_run.cfg", "SpecEdges", pages, rows,
                       extra="ACTION_CONSTRAINT EmitEdge\nINVARIANT InitMark\n")
    r = vf.run_tlc(ctx, "MC_Consume", cfg, workers=1, timeout=1500, heap="3g", name="consume_edges", quiet=True)
    if not r.ok:
        raise vf.Inconclusive("edge dump of Consume.tla failed: %s %s\n%s" % (r.violated, r.error, r.out[-1500:]))
    edges = vf.tlc_printed(r.out, "EDGE")
    inits = vf.tlc_printed(r.out, "INIT")
    for e in edges:
        e["_f"], e["_t"] = _key(e["from"]), _key(e["to"])
    seen, uniq = set(), []
    for e in edges:
        k = (e["_f"], _key(e["call"]))
        if k not in seen:
            seen.add(k)
            uniq.append(e)
    ops = {e["call"]["op"] for e in uniq}
    dead = [o for o in CONSUME_OPS if o not in ops]
    if dead:
        raise vf.Inconclusive("operations of Consume.tla that never occur in the graph (dead): %s" % dead)
    ikeys = []
    for s in inits:
        k = _key(s)
        if k not in ikeys:
            ikeys.append(k)
    ctx.log("Consume.tla graph: %d scenarios, %d states, %d edges (TLC: %d distinct states)" % (
        len(ikeys), len({e["_f"] for e in uniq} | {e["_t"] for e in uniq}), len(uniq), r.distinct))
    return ikeys, uniq, r


def _consume_paths(ikeys, edges):
    paths = []
    covered, npairs = cover_pairs(ikeys, edges)
    _consume_paths.pairs = npairs
    for n, (init, route) in enumerate(covered):
        scn = json.loads(init)["scn"]
        kind = ["query", "prepared"][n % 2]
        skip = (n // 2) % 2
        paths.append(dict(id=n + 1, scn=scn, calls=[edges[i]["call"] for i in route], kind=kind, skip=skip, _route=route))
    return paths



def _monitor(ctx, module, cfg, path, tag, timeout=1500):
    r = vf.run_tlc(ctx, module, cfg, workers=1, heap="3g", timeout=timeout, env={"VF_TRACE": path}, deadlock=False,
                   name="mon_" + tag, quiet=True)
    if not r.ok:
        raise vf.Inconclusive("%s failed on %s: %s\n%s" % (module, path, r.error or r.violated, r.out[-2500:]))
    done = re.findall(r'<<"MONDONE", (\d+)>>', r.out)
    want = sum(1 for _ in open(path))
    if not done or int(done[-1]) != want:
        raise vf.Inconclusive("%s stopped at line %s of %d in %s\n%s" % (module, done[-1:] or "?", want, path, r.out[-1500:]))
    return vf.tlc_printed(r.out, "MONOUT"), r


def _shard(ctx, recs, k, tag):
    blocks, cur = [], None
    for r in recs:
        if r["ev"] == "begin":
            cur = []
            blocks.append(cur)
        if cur is not None:
            cur.append(r)
    shards = [[] for _ in range(max(1, min(k, len(blocks))))]
    for b in sorted(blocks, key=len, reverse=True):
        min(shards, key=len).extend(b)
    paths = []
    for i, s in enumerate(shards):
        if s:
            p = os.path.join(ctx.tmp, "x02_%s_%d.ndjson" % (tag, i))
            vf.write_ndjson(p, s)
            paths.append(p)
    return paths, {b[0]["id"]: b for b in blocks}



def consume_step_diff(r, exp):
    """Python's own equality check of one replayed step against the edge TLC printed (cross-check of the monitor)."""
    if r["ret"] != exp["ret"]:
        fld = [k for k in ("b", "err", "ap", "keys", "vals", "rows") if r["ret"][k] != exp["ret"][k]][0]
        return "returned %s=%s, the specification demands %s" % (fld, r["ret"][fld], exp["ret"][fld])
    if exp["proj"]["spec"] and r["proj"] != exp["proj"]:
        fld = [k for k in exp["proj"] if r["proj"].get(k) != exp["proj"][k]][0]
        return "%s() shows %s afterwards, the specification demands %s" % (GETTERS.get(fld, fld), r["proj"].get(fld), exp["proj"][fld])
    return None


def _judge(ctx, part, paths, rep, blocks, outs, step_diff, describe, keyf, callf, label="recorded random sequence"):
    """Verdicts come from TLC (the trace monitor) for every recorded sequence.  For replayed paths Python compares
    each step with what TLC printed for that edge / walk step as well: both must name the same first deviating step,
    otherwise the run is inconclusive (oracle disagreement), never a verdict."""
    mon, skips, states = collections.defaultdict(list), set(), 0
    for mo, r in outs:
        states += r.distinct
        for o in mo:
            if o["k"] == "viol":
                mon[o["id"]].append(o)
            else:
                skips.add(o["id"])
    got = collections.defaultdict(list)
    for r in rep:
        if r["ev"] == "call":
            got[r["id"]].append(r)
    details = {}
    for p in paths:
        steps = got.get(p["id"], [])
        first = None
        for n, exp in enumerate(p["_exp"]):
            if n >= len(steps):
                break
            d = step_diff(steps[n], exp)
            if d:
                first = (n + 1, d)
                break
        mfirst = min((v["n"] for v in mon.get(p["id"], [])), default=None)
        if first and mfirst != first[0]:
            raise vf.Inconclusive("%s path %d: the step comparison finds a deviation at call %d (%s), TLC's monitor %s" % (
                part, p["id"], first[0], first[1], ("at call %d" % mfirst) if mfirst else "none"))
        if not first and mfirst is not None and not all(v["what"].startswith("property:") for v in mon[p["id"]]):
            raise vf.Inconclusive("%s path %d: TLC's monitor reports %s at call %d, the step comparison nothing" % (
                part, p["id"], mon[p["id"]][0]["what"], mfirst))
        if not first and mfirst is None and len(steps) < len(p["_exp"]):
            raise vf.Inconclusive("%s path %d stopped after %d of %d calls without a finding" % (part, p["id"], len(steps), len(p["_exp"])))
        if first:
            details[p["id"]] = (p, first[1], p["_exp"][first[0] - 1])
    bad, seen = {}, set()
    for id_, vs in mon.items():
        blk = blocks.get(id_, [])
        for v in vs:
            bad[id_] = min(bad.get(id_, 1 << 30), v["n"])
            rec = blk[v["n"]] if 0 < v["n"] < len(blk) else {}
            what = v["what"]
            obs = rec.get("ret") or rec.get("res") or {}
            if str(obs.get("err", "")).startswith("env-") or str(obs.get("ret", "")).startswith("env-") or any(
                    str(c.get("err", "")).startswith("env-") for c in obs.get("calls", []) if isinstance(c, dict)):
                raise vf.Inconclusive("%s sequence %d: the environment failed (%s), not the code under test" % (part, id_, obs))
            if obs.get("err") == "panic" or obs.get("ret") == "panic":
                what = "panic"
            if (id_, what) in seen:
                continue
            seen.add((id_, what))
            calls = " ".join(callf(r["call"]) for r in blk[1:v["n"] + 1])
            p, dtext, exp = details.get(id_, (None, None, None))
            ctx.violation(keyf(v, what),
                          "%s as call %d of %s %d on a %s: %s%s%s; calls so far: %s" % (
                              callf(rec.get("call", v)), v["n"], (p["_src"] + " path") if p else label, id_,
                              describe(p, blk) if blk else "?", v["what"],
                              (" - panicked: %s" % rec.get("note")) if what == "panic" else "",
                              (" - " + dtext) if dtext and what != "panic" else "", calls),
                          dict(part=part, begin=blk[0] if blk else None, calls=[r["call"] for r in blk[1:v["n"] + 1]], step=v["n"],
                               expected=exp, observed=rec, verdict=v, trace=blk[:v["n"] + 1][-40:]))
    judged = len(blocks) - len(skips | set(bad))
    if judged == 0 and not bad:
        raise vf.Inconclusive("no recorded %s sequence was judged to its end" % part)
    return dict(bad=bad, judged=judged, skipped=len(skips), states=states)


def _consume(ctx, pool, binary_f):
    quick = ctx.tier == "quick"
    f_model = pool.submit(_consume_model, ctx, quick)
    ikeys, edges, redge = _consume_edges(ctx, quick)
    paths = _consume_paths(ikeys, edges)
    pp = os.path.join(ctx.tmp, "x02_paths.ndjson")
    vf.write_ndjson(pp, [{k: v for k, v in p.items() if not k.startswith("_")} for p in paths])
    ncalls = sum(len(p["calls"]) for p in paths)
    npairs = _consume_paths.pairs
    ctx.log("graph walk: %d paths, %d calls cover the %d edges and all %d pairs of consecutive edges" % (
        len(paths), ncalls, len(edges), npairs))

    binary = binary_f.result()
    nrand = 400 if quick else 6000
    f_rep = pool.submit(_drive, ctx, binary, "^TestVfX02ConsumeReplay$", {"VF_X02_PATHS": pp, "VF_X02_PAR": 4}, 1500, "consume")
    f_rnd = pool.submit(_drive, ctx, binary, "^TestVfX02ConsumeRandom$", {"VF_X02_RANDOM": nrand, "VF_X02_PAR": 4}, 1500, "consume")
    out1 = f_rep.result()
    out2 = f_rnd.result()
    s_rep, s_rnd = _summary(out1, "consume replay"), _summary(out2, "consume random")
    ctx.log("consume replay: %s; random: %s" % (s_rep, s_rnd))
    rep = vf.read_ndjson(os.path.join(ctx.tmp, "x02_consume_replay.ndjson"))
    rnd = vf.read_ndjson(os.path.join(ctx.tmp, "x02_consume_random.ndjson"))
    if s_rep["calls"] == 0 or s_rnd["calls"] == 0 or s_rep["requests"] == 0:
        raise vf.Inconclusive("the consume drivers executed nothing")

    for p in paths:
        p["_exp"] = [dict(ret=edges[i]["ret"], proj=edges[i]["proj"]) for i in p["_route"]]
        p["_src"] = "graph walk"
    shards, blocks = _shard(ctx, rep + rnd, 2 if quick else 8, "consume")
    outs = list(pool.map(lambda p: _monitor(ctx, "Trace_Consume", "Trace_Consume.cfg", p, os.path.basename(p)[:-7]), shards))

    def describe(p, blk):
        scn = blk[0]["scn"]
        return "%s/%s result (pages %s, failing page %s, applied %s; sent as %s, skip-metadata %s)" % (
            scn["via"], scn["shape"], scn["pages"], scn["fail"], scn["applied"], blk[0].get("kind"), blk[0].get("skip"))

    j = _judge(ctx, "consume", paths, rep, blocks, outs, consume_step_diff, describe,
               lambda v, what: "consume/%s[%s]/%s/%s-%s" % (v["op"], v["v"], what, v["via"], v["shape"]),
               lambda c: "%s(%s)" % (c["op"], c["v"]))
    edges_ok = set()
    for p in paths:
        if p["id"] not in j["bad"]:
            edges_ok.update(p["_route"])
        else:
            edges_ok.update(p["_route"][:j["bad"][p["id"]] - 1])
    ctx.log("graph walk: %d of %d edges agree with the real code on every path through them or before a finding; "
            "%d of %d paths with a finding" % (len(edges_ok), len(edges), len([p for p in paths if p["id"] in j["bad"]]), len(paths)))
    ctx.log("Trace_Consume: %d sequences (%d events); %d judged to the end, %d left the documented part, %d with a violation" % (
        len(blocks), len(rep) + len(rnd), j["judged"], j["skipped"], len(j["bad"])))
    judged, steps = j["judged"], j["states"]
    skips_n = j["skipped"]
    mres = f_model.result()
    return dict(model=mres, edges=len(edges), edges_agreeing=len(edges_ok), edge_pairs_covered=npairs, paths=len(paths), path_calls=ncalls,
                random_sequences=s_rnd["sequences"], random_calls=s_rnd["calls"], sequences_judged_to_end=judged,
                sequences_leaving_documented_part=skips_n, monitor_states=steps,
                sample=dict(kind="TLC path replayed on the real code", scenario=paths[0]["scn"],
                            calls=["%s(%s)" % (c["op"], c["v"]) for c in paths[0]["calls"]],
                            expected=[edges[i]["ret"] for i in paths[0]["_route"]]),
                tlc_states=redge.distinct + mres["distinct"], tlc_transitions=redge.generated + mres["generated"])


# ------------------------------------------------------------------ part 2: QueryLife.tla

LIFE_INVS = "TypeOK FreshAndOwn NewIsDefaults OnePerAttempt NothingSent SettersReachWire"
LIFE_WRONG = ["no-reset", "partial-reset", "withctx-aliases"]
ALL_STMTS = '{"q0", "p0", "p2", "b2"}'
EDGE_COPYSET = '{"cons", "tsval", "pstate", "bind", "idemF", "obs"}'   # what the edge-dump instances call on a WithContext copy
WIRE_FIELDS = ["op", "stmt", "vals", "cons", "skip", "psize", "pstate", "serial", "ts", "tracing", "payload", "btype", "n", "kinds", "counts"]
OBS_FIELDS = ["who", "stmts", "vals", "rows", "err", "att", "host"]
Q_FIELDS = ["live", "stmt", "vals", "cons", "idem", "ctx", "att", "rkey"]
B_FIELDS = ["live", "size", "cons", "att"]


def _life_cfg(ctx, name, spec, profiles, stmts, sets, lives, execs, batch, poolv, invs="", props="", extra="", copyset=None):
    t = ("SPECIFICATION %s\nCONSTANTS\n  Profiles = %s\n  StmtSet = %s\n  MaxSets = %d\n  MaxLives = %d\n  MaxExecs = %d\n"
         "  WithBatch = %s\n  PoolVariant = \"%s\"\n  CopySetters %s\n" % (
             spec, profiles, stmts, sets, lives, execs, "TRUE" if batch else "FALSE", poolv,
             ("= " + copyset) if copyset else "<- Setters"))
    if invs:
        t += "INVARIANTS %s\n" % invs
    if props:
        t += "PROPERTIES %s\n" % props
    t += extra + "CHECK_DEADLOCK FALSE\n"
    return _cfg(ctx, name, t)


def _life_model(ctx, quick):
    """Exhaustive pass with the pool design, the batch instance, the wrong pool designs."""
    res = dict(configs=[], refuted={})
    insts = [("pool", '{"P1", "P2"}', '{"p2", "b2"}' if quick else ALL_STMTS, 1, 2, 1, False, "ok", LIFE_INVS, "AttemptsCount"),
             ("batch", '{"P1", "P2"}', "{}", 2, 0, 2, True, "none", "TypeOK OnePerAttempt NothingSent", "")]
    if not quick:
        insts.append(("pool3", '{"P2"}', '{"p2"}', 1, 3, 1, False, "ok", LIFE_INVS, "AttemptsCount"))
        insts.append(("sets2", '{"P2"}', '{"p0", "p2"}', 2, 1, 2, False, "ok", LIFE_INVS, "AttemptsCount"))
    for name, prof, st, sets, lives, execs, batch, pv, invs, props in insts:
        c = _life_cfg(ctx, "MC_QueryLife_%s.cfg" % name, "Spec", prof, st, sets, lives, execs, batch, pv, invs, props)
        r = vf.tlc_must_pass(ctx, "MC_QueryLife", c, workers=6, timeout=2400, heap="4g", name="life_mc_" + name)
        res["configs"].append(dict(cfg=name, distinct=r.distinct, generated=r.generated, depth=r.depth))
    for v in LIFE_WRONG:
        c = _life_cfg(ctx, "MC_QueryLife_x_%s.cfg" % v, "Spec", '{"P2"}', '{"p2"}', 1, 2, 1, False, v, LIFE_INVS)
        rx = vf.run_tlc(ctx, "MC_QueryLife", c, workers=2, timeout=900, heap="2g", name="life_x_" + v, quiet=True)
        if rx.violated != "FreshAndOwn":
            raise vf.Inconclusive("wrong pool design %s of QueryLife.tla was not refuted by FreshAndOwn (violated=%s error=%s)" % (
                v, rx.violated, rx.error))
        res["refuted"][v] = "FreshAndOwn"
    res["distinct"] = sum(c["distinct"] for c in res["configs"])
    res["generated"] = sum(c["generated"] for c in res["configs"])
    return res


def _life_edges(ctx, inst):
    name, prof, st, sets, lives, execs, batch = inst
    cfg = _life_cfg(ctx, "MC_QueryLife_edges_%s.cfg" % name, "Spec", prof, st, sets, lives, execs, batch, "none",
                    extra="ACTION_CONSTRAINT EmitEdge\nINVARIANT InitMark\nVIEW ViewL\n", copyset=EDGE_COPYSET)
    r = vf.run_tlc(ctx, "MC_QueryLife", cfg, workers=1, timeout=2400, heap="4g", name="life_edges_" + name, quiet=True)
    if not r.ok:
        raise vf.Inconclusive("edge dump %s of QueryLife.tla failed: %s %s\n%s" % (name, r.violated, r.error, r.out[-1500:]))
    edges = vf.tlc_printed(r.out, "EDGE")
    inits = []
    for s in vf.tlc_printed(r.out, "INIT"):
        k = _key(s)
        if k not in inits:
            inits.append(k)
    seen, uniq = set(), []
    for e in edges:
        e["_f"], e["_t"] = _key(e["from"]), _key(e["to"])
        k = (e["_f"], _key(e["call"]))
        if k not in seen:
            seen.add(k)
            uniq.append(e)
    return name, inits, uniq, r


def _life_walks(ctx, num, seed, walklen):
    d = vf._scratch_spec_dir(ctx, "w")
    cfg = _life_cfg(ctx, "Gen_QueryLife_walk.cfg", "WSpec", '{"P1", "P2"}', ALL_STMTS, 5, 3, 2, True, "none",
                    invs="EmitWalk").replace(".cfg", ".cfg")
    with open(os.path.join(d, cfg)) as f:
        t = f.read()
    with open(os.path.join(d, cfg), "w") as f:
        f.write(t.replace("CONSTANTS\n", "CONSTANTS\n  WalkLen = %d\n" % walklen))
    r = vf.run_tlc(ctx, "Gen_QueryLife", cfg, workers=1, timeout=1500, heap="3g", simulate="num=%d" % num, depth=walklen + 2,
                   name="life_walks", extra=["-seed", str(seed)], deadlock=False, quiet=True)
    if not r.ok:
        raise vf.Inconclusive("walk generation of QueryLife.tla failed: %s\n%s" % (r.error or r.violated, r.out[-1500:]))
    seen, res = set(), []
    for w in vf.tlc_printed(r.out, "WALK"):
        k = _key([s["call"] for s in w["steps"]]) + w["prof"]
        if k not in seen:
            seen.add(k)
            res.append(w)
    # TLC prints the walk of every candidate successor at the last step: keep num of them, the longest first
    res.sort(key=lambda w: -len(w["steps"]))
    return res[:num]


def _first(fields, a, e, skip_att=False):
    for k in fields:
        if k == "att" and skip_att:
            continue
        if a.get(k) != e.get(k):
            return k
    return ""


def life_res_diff(a, e):
    """The same rule as ResDiff of Trace_QueryLife.tla (equality, as far as `judge` says the result is decided)."""
    if e["judge"] == "none":
        return ""
    if a["ret"] != e["ret"]:
        return "ret"
    if len(a["reqs"]) != len(e["reqs"]):
        return "request-count"
    for x, y in zip(a["reqs"], e["reqs"]):
        d = _first(WIRE_FIELDS, x, y)
        if d:
            return "request:" + d
    if e["judge"] != "all":
        return ""
    if len(a["calls"]) != len(e["calls"]):
        return "observer-call-count"
    for x, y in zip(a["calls"], e["calls"]):
        d = _first(OBS_FIELDS, x, y)
        if d:
            return "observer:" + d
    if e["first"] >= 0 and a["first"] != e["first"]:
        return "observer:first-attempt-index"
    if a["tracer"] != e["tracer"] or a["traced"] != e["traced"]:
        return "tracer"
    if e["att"] >= 0 and a["att"] != e["att"]:
        return "Attempts"
    if e["att"] >= 0 and a["lat"] != e["lat"]:
        return "Latency"
    return ""


def life_proj_diff(a, e):
    for h, nm, fields in (("q", "q", Q_FIELDS), ("c", "copy", Q_FIELDS), ("b", "batch", B_FIELDS)):
        if not e[h]["live"]:
            continue
        d = _first(fields, a[h], e[h], skip_att=e[h]["att"] < 0)
        if d:
            return "%s.%s" % (nm, d)
    return ""


def _life_key(c, what):
    return "life/%s[%s]/%s" % (c["op"], c["a"], what)


def _life(ctx, pool, binary_f):
    quick = ctx.tier == "quick"
    f_model = pool.submit(_life_model, ctx, quick)
    if quick:
        insts = [("q_p2", '{"P2"}', '{"p2"}', 1, 1, 1, False), ("q_p1", '{"P1"}', '{"p0"}', 1, 1, 1, False),
                 ("batch", '{"P2"}', "{}", 1, 0, 1, True)]
    else:
        insts = [("all", '{"P1", "P2"}', ALL_STMTS, 1, 1, 1, False), ("two_lives", '{"P2"}', '{"p2"}', 1, 2, 1, False),
                 ("batch", '{"P1", "P2"}', "{}", 1, 0, 2, True)]
    f_edges = [pool.submit(_life_edges, ctx, i) for i in insts]
    f_walks = pool.submit(_life_walks, ctx, 150 if quick else 3000, ctx.seed * 7919 + 3, 30)

    paths, nedges, st, tr = [], 0, 0, 0
    for f in f_edges:
        name, inits, edges, r = f.result()
        st += r.distinct
        tr += r.generated
        nedges += len(edges)
        for init, route in cover_paths(inits, edges):
            paths.append(dict(id=len(paths) + 1, prof=json.loads(init)["prof"], calls=[edges[i]["call"] for i in route],
                              _exp=[dict(res=edges[i]["res"], proj=edges[i]["proj"]) for i in route], _src="edges:" + name))
        ctx.log("QueryLife.tla graph %s: %d states, %d edges" % (name, r.distinct, len(edges)))
    nedge_paths = len(paths)
    walks = f_walks.result()
    for w in walks:
        paths.append(dict(id=len(paths) + 1, prof=w["prof"], calls=[s["call"] for s in w["steps"]],
                          _exp=[dict(res=s["res"], proj=s["proj"]) for s in w["steps"]], _src="walk"))
    ops = collections.Counter(c["op"] for p in paths for c in p["calls"])
    dead = [o for o in ("New", "Set", "WithCtx", "Exec", "Release", "NewBatch", "BAdd", "Fill", "BSet", "ExecB") if not ops[o]]
    if dead:
        raise vf.Inconclusive("operations of QueryLife.tla that never occur in a generated path (dead): %s" % dead)
    pp = os.path.join(ctx.tmp, "x02_life_paths.ndjson")
    vf.write_ndjson(pp, [{k: v for k, v in p.items() if not k.startswith("_")} for p in paths])
    ncalls = sum(len(p["calls"]) for p in paths)
    ctx.log("life: %d edge paths + %d walks = %d calls" % (nedge_paths, len(walks), ncalls))

    binary = binary_f.result()
    nrand = 300 if quick else 5000
    f_rep = pool.submit(_drive, ctx, binary, "^TestVfX02LifeReplay$", {"VF_X02_PATHS": pp, "VF_X02_PAR": 4}, 2400, "life")
    f_rnd = pool.submit(_drive, ctx, binary, "^TestVfX02LifeRandom$", {"VF_X02_RANDOM": nrand, "VF_X02_PAR": 4}, 2400, "life")
    out1 = f_rep.result()
    out2 = f_rnd.result()
    s_rep, s_rnd = _summary(out1, "life replay"), _summary(out2, "life random")
    ctx.log("life replay: %s; random: %s" % (s_rep, s_rnd))
    if s_rep["executions"] == 0 or s_rnd["executions"] == 0:
        raise vf.Inconclusive("the life drivers executed nothing")
    if s_rep["pooled_objects_reused"] + s_rnd["pooled_objects_reused"] == 0:
        raise vf.Inconclusive("no Session.Query call was handed a pooled object: the query pool was not exercised")
    rep = vf.read_ndjson(os.path.join(ctx.tmp, "x02_life_replay.ndjson"))
    rnd = vf.read_ndjson(os.path.join(ctx.tmp, "x02_life_random.ndjson"))

    shards, blocks = _shard(ctx, rep + rnd, 3 if quick else 8, "life")
    outs = list(pool.map(lambda p: _monitor(ctx, "Trace_QueryLife", "Trace_QueryLife.cfg", p, os.path.basename(p)[:-7], 2400), shards))

    def step_diff(r, exp):
        d = life_res_diff(r["res"], exp["res"])
        if d:
            return "observed %s, the specification demands %s" % (json.dumps(r["res"])[:700], json.dumps(exp["res"])[:700])
        d = life_proj_diff(r["proj"], exp["proj"])
        if d:
            return "the getters show %s, the specification demands %s" % (r["proj"], exp["proj"])
        return None

    j = _judge(ctx, "life", paths, rep, blocks, outs, step_diff, lambda p, blk: "session with profile %s" % blk[0].get("prof"),
               lambda v, what: "life/%s[%s]/%s" % (v["op"], v["a"], what), lambda c: "%s(%s,%s)" % (c["op"], c["h"], c["a"]))
    steps_ok = sum(len(p["calls"]) if p["id"] not in j["bad"] else j["bad"][p["id"]] - 1 for p in paths)
    ctx.log("life replay: %d of %d calls agree with TLC's expectation; %d paths with a finding" % (
        steps_ok, ncalls, len([p for p in paths if p["id"] in j["bad"]])))
    ctx.log("Trace_QueryLife: %d sequences (%d events); %d judged to the end, %d left the model, %d with a violation" % (
        len(blocks), len(rep) + len(rnd), j["judged"], j["skipped"], len(j["bad"])))
    judged, mstates, skips_n = j["judged"], j["states"], j["skipped"]
    mres = f_model.result()
    sample = paths[nedge_paths] if len(paths) > nedge_paths else paths[0]
    return dict(model=mres, edges=nedges, edge_paths=nedge_paths, walks=len(walks), path_calls=ncalls, calls_agreeing=steps_ok,
                operations=dict(ops), random_sequences=s_rnd["sequences"], random_calls=s_rnd["calls"],
                executions=s_rep["executions"] + s_rnd["executions"],
                pooled_objects_reused=s_rep["pooled_objects_reused"] + s_rnd["pooled_objects_reused"],
                session_query_calls=s_rep["session_query_calls"] + s_rnd["session_query_calls"],
                sequences_judged_to_end=judged, sequences_leaving_the_model=skips_n, monitor_states=mstates,
                sample=dict(kind="TLC walk through QueryLife.tla replayed on the real code", profile=sample["prof"],
                            calls=["%s(%s,%s)" % (c["op"], c["h"], c["a"]) for c in sample["calls"]],
                            expected_last=sample["_exp"][-1]["res"]),
                tlc_states=st + mres["distinct"], tlc_transitions=tr + mres["generated"])


def _replay(ctx, pool, binary_f):
    """--replay: the call sequences stored in a replay file are executed again on the current code and judged by TLC."""
    rp = json.load(open(ctx.replay))
    seqs = dict(consume=[], life=[])
    for v in rp.get("violations", []):
        d = v.get("detail") or {}
        if d.get("begin") and d.get("calls"):
            b = d["begin"]
            n = len(seqs[d["part"]]) + 1
            if d["part"] == "consume":
                seqs["consume"].append(dict(id=n, scn=b["scn"], calls=d["calls"], kind=b.get("kind", "query"), skip=b.get("skip", 0)))
            else:
                seqs["life"].append(dict(id=n, prof=b["prof"], calls=d["calls"]))
    if not seqs["consume"] and not seqs["life"]:
        raise vf.Inconclusive("the replay file holds no call sequence")
    binary = binary_f.result()
    total = 0
    for part, test, out, mod, descr, keyf, callf in (
            ("consume", "^TestVfX02ConsumeReplay$", "x02_consume_replay.ndjson", "Trace_Consume",
             lambda p, blk: "%s/%s result %s" % (blk[0]["scn"]["via"], blk[0]["scn"]["shape"], blk[0]["scn"]),
             lambda v, what: "consume/%s[%s]/%s/%s-%s" % (v["op"], v["v"], what, v["via"], v["shape"]),
             lambda c: "%s(%s)" % (c["op"], c["v"])),
            ("life", "^TestVfX02LifeReplay$", "x02_life_replay.ndjson", "Trace_QueryLife",
             lambda p, blk: "session with profile %s" % blk[0].get("prof"),
             lambda v, what: "life/%s[%s]/%s" % (v["op"], v["a"], what), lambda c: "%s(%s,%s)" % (c["op"], c["h"], c["a"]))):
        if not seqs[part]:
            continue
        pp = os.path.join(ctx.tmp, "x02_replay_%s.ndjson" % part)
        vf.write_ndjson(pp, seqs[part])
        try:
            _drive(ctx, binary, test, {"VF_X02_PATHS": pp, "VF_X02_PAR": 1}, 1500, part)
        except _Crashed:
            continue
        recs = vf.read_ndjson(os.path.join(ctx.tmp, out))
        shards, blocks = _shard(ctx, recs, 1, "replay_" + part)
        outs = [_monitor(ctx, mod, mod + ".cfg", shards[0], "replay_" + part)]
        j = _judge(ctx, part, [], recs, blocks, outs, None, descr, keyf, callf, label="replayed sequence")
        total += len(blocks)
        ctx.log("replayed %d %s sequences on the current code: %d with a violation" % (len(blocks), part, len(j["bad"])))
    ctx.cov = dict(states=0, transitions=0, traces_validated_against_impl=total,
                   samples=[dict(kind="replayed sequence", sequence=(seqs["consume"] or seqs["life"])[0])])


def run(ctx):
    ctx.level = "model_checking"
    pool = cf.ThreadPoolExecutor(max_workers=10)
    vf._scratch_spec_dir(ctx, "w")
    binary_f = pool.submit(vf.build_gotest, ctx, ".", ["common", "x02"])
    if getattr(ctx, "replay", None):
        _replay(ctx, pool, binary_f)
        pool.shutdown()
        return
    parts = os.environ.get("VF_X02_PARTS", "consume,life").split(",")
    f_cons = pool.submit(_consume, ctx, pool, binary_f) if "consume" in parts else None
    f_life = pool.submit(_life, ctx, pool, binary_f) if "life" in parts else None
    cons = life = None
    for nm, f in (("consume", f_cons), ("life", f_life)):
        if f is None:
            continue
        try:
            r = f.result()
        except _Crashed:
            r = None
            ctx.notes.append("%s: the driver process crashed; see the violation" % nm)
        if nm == "consume":
            cons = r
        else:
            life = r
    pool.shutdown()
    states = sum((x or {}).get("tlc_states", 0) for x in (cons, life))
    trans = sum((x or {}).get("tlc_transitions", 0) for x in (cons, life))
    ctx.cov = dict(states=states, transitions=trans,
                   traces_validated_against_impl=sum((x or {}).get("sequences_judged_to_end", 0) for x in (cons, life)),
                   consume=cons, life=life, samples=[x["sample"] for x in (cons, life) if x])
    ctx.assumptions += [
        "protocol v4, one scripted node, one connection; bounded instances (Consume: <= 2 pages x <= 2 rows in the quick tier, "
        "3 x 2 thorough; QueryLife: <= 1 setter per life in the exhaustive passes, walks with <= 5 setters, 3 lives, batches)",
        "calls the documentation does not decide (wrong destinations when no row is in the current page, Scan after Close, "
        "Scanner after Err, retries of non-idempotent queries = C13's open finding, values of non-prepared statements) are "
        "neither generated nor judged",
        "paging order, prefetching and re-execution of one Query value are C15's; wire encodings C03's; decoding C04's",
    ]
