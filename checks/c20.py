"""C20 - TLS verification and credential disclosure are exactly as documented.

spec -> code: Gen_Tls.tla enumerates the complete TLS configuration space (one TLC state per
row) with what the documentation requires (Handshake.tla, transcribed from the table in doc.go
and the property text); MC_HandshakeAuth.tla model-checks the authentication machine and prints
every maximal behaviour as a case.  The Go harness (harness/c20) executes every row on the real
connConfig/setupTLSConfig/tlsConfigForAddr/DialHost->WrapTLS (incl. real TLS handshakes against an
in-process crypto/tls server) and every auth behaviour on a real Session against the scripted node.
code -> spec: what was observed is recorded as vectors / event traces and judged by TLC
(Trace_TlsVec.tla, Trace_Auth.tla); MONVIOL lines become violations.
"""
import json, os, re, collections
import vf

DEV_WORKERS = int(os.environ.get("VERIF_TLC_WORKERS", "0")) or None


def _key(x):
    return json.dumps(x, sort_keys=True, separators=(",", ":"))


def doc_column(i):
    return "nil" if not i["cfg"] else ("true" if i["insecure"] else "false")


def _probe_fail(ctx, msg):
    """A failed probe is a machinery problem (exit 2) - unless the genuine vectors already showed violations of the
    property: those are evidence about the code and must be reported (exit 1), the probe result becomes a note."""
    if ctx.violations:
        ctx.notes.append("binding probe not conclusive on this (violating) tree: " + msg)
        return
    raise vf.Inconclusive(msg)


def _probe_tls(ctx, vecs, bad_lines):
    """Binding probe: a recorded vector that TLC accepted, with ONE observation falsified, must be rejected by TLC
    with at least that aspect.  Runs after the genuine vectors have been judged and reported."""
    ok = [v for k, v in enumerate(vecs) if not v["err"] and not v["panic"] and (k + 1) not in bad_lines]
    if not ok:
        return _probe_fail(ctx, "no accepted TLS row to probe the binding with")
    probes = []
    a = json.loads(json.dumps(ok[0])); a["verify"] = not a["verify"]; probes.append((a, "verify"))
    b = json.loads(json.dumps(ok[1 % len(ok)])); b["untouched"] = False; probes.append((b, "caller-mutated"))
    c = json.loads(json.dumps(ok[2 % len(ok)])); c["hs"]["wrongca"] = "ok" if c["hs"]["wrongca"] != "ok" else "fail"
    probes.append((c, "handshake-wrongca"))
    pp = os.path.join(ctx.tmp, "tls_probe.ndjson")
    vf.write_ndjson(pp, [ok[0]] + [p for p, _ in probes])
    t = vf.run_tlc(ctx, "Trace_TlsVec", "Trace_TlsVec.cfg", workers=1, timeout=300, deadlock=False, env={"VF_TRACE": pp},
                   name="tlsvec_probe", quiet=True)
    got = {mv["line"]: mv["kinds"] for mv in vf.tlc_printed(t.out, "MONVIOL")}
    if not t.ok or 1 in got or any(k not in got.get(i + 2, []) for i, (_, k) in enumerate(probes)):
        _probe_fail(ctx, "binding probe failed: falsified TLS vectors were not rejected with at least the expected aspect: %s" % got)


def _probe_auth(ctx, ordered, bad_ids):
    """Binding probe: a real trace that TLC accepted, with one token byte changed / the announced class replaced by an
    unapproved one, must be rejected by TLC with at least that aspect."""
    ids = [e["id"] for e in ordered if e["ev"] == "cli" and e["op"] == 15 and e["token"] and e["id"] not in bad_ids]
    if not ids:
        return _probe_fail(ctx, "no accepted AUTH_RESPONSE trace to probe the binding with")
    one = [json.loads(json.dumps(e)) for e in ordered if e["id"] == ids[0]]
    bad = [json.loads(json.dumps(e)) for e in one]
    for e in bad:
        e["id"] = ids[0] + 1000000
    k = next(i for i, e in enumerate(bad) if e["ev"] == "cli" and e["op"] == 15)
    bad[k]["token"][-1] = (bad[k]["token"][-1] + 1) % 256
    bad2 = [json.loads(json.dumps(e)) for e in one]
    for e in bad2:
        e["id"] = ids[0] + 2000000
        if e["ev"] == "case":
            e["allowed"] = []          # default list: the class below is on nobody's list
        if e["ev"] == "srv":
            e["class"] = "com.evil.auth.CredentialCollector"
    pp = os.path.join(ctx.tmp, "auth_probe.ndjson")
    vf.write_ndjson(pp, one + bad + bad2)
    t = vf.run_tlc(ctx, "Trace_Auth", "Trace_Auth.cfg", workers=1, timeout=300, deadlock=False, env={"VF_TRACE": pp},
                   name="auth_probe", quiet=True)
    got = collections.defaultdict(list)
    for mv in vf.tlc_printed(t.out, "MONVIOL"):
        got[mv["id"]] += mv["kinds"]
    if not t.ok or [x for x in got.get(ids[0], []) if not x.startswith("drift-")] or \
            "token-not-sasl-plain" not in got.get(ids[0] + 1000000, []) or \
            "credentials-to-unapproved-class" not in got.get(ids[0] + 2000000, []):
        _probe_fail(ctx, "binding probe failed: falsified auth traces were not rejected with at least the expected aspect: %s" % dict(got))


def _flush(ctx, agg):
    """One violation per key (class of failing input), with the first occurrence as the witness."""
    for key, l in agg.items():
        what, detail = l[0]
        ctx.violation(key, "%s%s" % (what, " (+%d more of this class)" % (len(l) - 1) if len(l) > 1 else ""), detail)


# ------------------------------------------------------------------ TLS table

def tls_part(ctx, binary):
    g = vf.tlc_must_pass(ctx, "Gen_Tls", "Gen_Tls.cfg", workers=1, timeout=300, deadlock=False)
    rows = vf.tlc_printed(g.out, "ROW")
    if not rows or len(rows) != g.distinct:
        raise vf.Inconclusive("Gen_Tls printed %d rows for %d states" % (len(rows), g.distinct))
    # deterministic ids, order shuffled by the seed (the real code must not depend on the order)
    rows.sort(key=lambda r: _key(r["in"]))
    import random
    random.Random(ctx.seed).shuffle(rows)
    rp = os.path.join(ctx.tmp, "tls_rows.ndjson")
    vf.write_ndjson(rp, [{"id": i, "in": r["in"]} for i, r in enumerate(rows)])
    # the file variants (which kind of garbage, which half of the key pair is bad) rotate with seed + row id;
    # the thorough tier runs all four rotations, so every row meets every variant
    vecs, tstates, ttrans = [], 0, 0
    mon = []
    for rot in ([0] if ctx.tier == "quick" else [0, 1, 2, 3]):
        vp = os.path.join(ctx.tmp, "tls_vec_%d.ndjson" % rot)
        rc, out = vf.run_gotest(ctx, binary, "^TestVfC20Tls$", env={"VF_C20_ROWS": rp, "VF_C20_VEC": vp, "VF_SEED": ctx.seed + rot},
                                timeout=600)
        m = re.search(r"^VFSUMMARY (.*)$", out, re.M)
        if not m or "--- PASS" not in out:
            raise vf.Inconclusive("TLS driver failed:\n" + out[-3000:])
        part = vf.read_ndjson(vp)
        # every generated row was executed exactly once, with the inputs TLC generated
        if len(part) != len(rows) or any(_key(v["in"]) != _key(rows[v["id"]]["in"]) for v in part) or \
                len({v["id"] for v in part}) != len(rows):
            raise vf.Inconclusive("the TLS driver did not execute every generated row exactly once (%d of %d)" % (len(part), len(rows)))
        t = vf.run_tlc(ctx, "Trace_TlsVec", "Trace_TlsVec.cfg", workers=1, timeout=600, deadlock=False, env={"VF_TRACE": vp},
                       name="tlsvec_%d" % rot)
        if not t.ok or t.distinct != len(part) + 1:
            raise vf.Inconclusive("Trace_TlsVec failed: %s\n%s" % (t.error or t.violated, t.out[-2000:]))
        for mv in vf.tlc_printed(t.out, "MONVIOL"):
            mv["line"] += len(vecs)
            mon.append(mv)
        vecs += part
        tstates += t.distinct
        ttrans += t.generated
    nviol = 0
    agg = collections.OrderedDict()
    unexpected_err = []
    for mv in mon:
        v = vecs[mv["line"] - 1]
        i = v["in"]
        for kind in mv["kinds"]:
            if kind == "error-unexpected":
                unexpected_err.append(v)
                continue
            if kind == "not-a-row":
                raise vf.Inconclusive("vector %d is not a row of the table" % v["id"])
            if kind == "panic":
                key = "tls-panic"
                what = "the TLS setup panicked / misbehaved: %s" % v["panic"]
            elif kind == "error-missing":
                key = "tls-no-error-ca=%s-kp=%s" % (i["ca"], i["kp"])
                what = "no error although CA file is %s and key pair is %s: the session would connect without them" % (i["ca"], i["kp"])
            elif kind == "verify":
                key = "tls-verify-config=%s-hostverification=%s" % (doc_column(i), str(i["hv"]).lower())
                what = "documented table row (Config.InsecureSkipVerify=%s, EnableHostVerification=%s) says %s, the config " \
                       "used for the handshake has InsecureSkipVerify=%s" % (
                           doc_column(i), i["hv"], "verify host" if mv["exp"]["verify"] else "do not verify host", not v["verify"])
            elif kind in ("servername", "servername-second-host"):
                key = "tls-%s-host=%s-snset=%s" % (kind, i["host"], str(i["snset"]).lower())
                what = "verifying against server name %r / %r for hosts %s / %s (caller's ServerName %s)" % (
                    v["name"], v["name2"], v["hostname"], v["host2"], v["username"] if i["snset"] else "unset")
            elif kind == "caller-mutated":
                key = "tls-caller-config-mutated"
                what = "the caller's tls.Config was modified (InsecureSkipVerify / ServerName differ after session setup)"
            elif kind == "sni-not-the-host-name":
                key = "tls-sni-host=%s" % i["host"]
                what = "the verifying client announced SNI %r for host %s (dialled at %s)" % (v["sni"], v["hostname"], v["dialaddr"])
            else:  # handshake-*
                srv = kind.split("-", 1)[1].replace("hostcert-second-host", "hostcert2")
                key = "tls-%s-config=%s-hostverification=%s-snset=%s-trust=%s" % (
                    kind, doc_column(i), str(i["hv"]).lower(), str(i["snset"]).lower(),
                    str(i["ca"] == "valid" or i["uroots"]).lower())
                what = "real TLS handshake with a server presenting %s %s (%s) where the documentation requires %s" % (
                    srv, "succeeded" if v["hs"][srv] == "ok" else "failed", v["hserr"].get(srv, ""),
                    "failure" if v["hs"][srv] == "ok" else "success")
            nviol += 1
            agg.setdefault(key, []).append((what + " [row %s]" % _key(i), dict(vector=v, required=mv["exp"])))
    _flush(ctx, agg)
    _probe_tls(ctx, vecs, {mv["line"] for mv in mon})
    if unexpected_err:
        ctx.add_drift("%d rows with valid files were refused, e.g. %s: %s" % (
            len(unexpected_err), _key(unexpected_err[0]["in"]), unexpected_err[0]["errtext"]))
    # observations that the property does not decide
    ok = [v for v in vecs if not v["err"] and not v["panic"]]
    pool = [v for v in ok if v["poolgrew"]]
    if pool:
        ctx.notes.append("observation (not judged): with a caller-supplied RootCAs pool and a CaPath, the CA file's certificates "
                         "are appended to the CALLER's pool object (%d rows)" % len(pool))
    nocert = [v for v in ok if v["in"]["kp"] == "valid" and v["hs"]["hostcert"] == "ok" and not v["clicert"]]
    if nocert:
        ctx.add_drift("a valid key pair was configured but no client certificate was presented (%d rows)" % len(nocert))
    unstable = [v for v in ok if not v["effstable"]]
    if unstable:
        ctx.add_drift("the shared effective tls.Config changed while dialling (%d rows)" % len(unstable))
    nhs = sum(1 for v in vecs for r in v["hs"].values() if r != "none")
    ctx.log("TLS table: %d rows executed, %d real handshakes, %d mismatching aspects" % (len(vecs), nhs, nviol))
    sample = next((v for v in ok if v["in"]["cfg"] and v["in"]["insecure"] and v["in"]["hv"] and v["in"]["host"] == "ipv6"), vecs[0])
    return dict(states=g.distinct + tstates, transitions=g.generated + ttrans, rows=len(rows), executions=len(vecs), handshakes=nhs,
                rows_with_error_required=sum(1 for r in rows if r["exp"]["err"]),
                sample=dict(kind="tls-row", row=sample["in"], required=[r for r in rows if _key(r["in"]) == _key(sample["in"])][0]["exp"],
                            observed=dict(verify=sample["verify"], name=sample["name"], name2=sample["name2"], hs=sample["hs"],
                                          err=sample["err"], untouched=sample["untouched"])))


# ------------------------------------------------------------------ authentication machine

def auth_part(ctx, binary):
    quick = ctx.tier == "quick"
    m = vf.tlc_must_pass(ctx, "MC_HandshakeAuth", "MC_HandshakeAuth.cfg", workers=1, timeout=300, deadlock=False)
    paths = vf.tlc_printed(m.out, "CASE")
    creds = vf.tlc_printed(m.out, "CRED")
    if not paths or not creds:
        raise vf.Inconclusive("MC_HandshakeAuth printed no cases")
    paths.sort(key=_key)
    creds.sort(key=_key)
    import random
    rnd = random.Random(ctx.seed)
    rnd.shuffle(creds)
    cases = []
    for k, p in enumerate(paths):
        # quick: every behaviour with a rotating credential pair, plus every credential pair on the
        # behaviours that send a token to the first approved classes; thorough: the full product
        if quick:
            sel = [creds[(k + ctx.seed) % len(creds)]]
        else:
            sel = creds if p["sent"] else [creds[(k + ctx.seed) % len(creds)]]
        for c in sel:
            cases.append(dict(path=p, cred=c))
    if quick:
        senders = [p for p in paths if p["sent"] and p["script"] == ["authenticate", "success"]]
        rnd.shuffle(senders)
        for j, c in enumerate(creds):
            cases.append(dict(path=senders[j % len(senders)], cred=c))
    # interleaved handshakes: a second PasswordAuthenticator with DIFFERENT credentials answers between this
    # connection's Challenge and its AUTH_RESPONSE (quick: every credential pair once on a rotating behaviour and
    # every token-sending password behaviour once; thorough: the full product)
    inter = []
    pw_senders = [p for p in paths if p["kind"] == "pw" and p["sent"] and "challenge" not in p["script"]]
    if quick:
        for j, c in enumerate(creds):
            inter.append(dict(path=pw_senders[(j + ctx.seed) % len(pw_senders)], cred=c))
        for j, p in enumerate(pw_senders):
            inter.append(dict(path=p, cred=creds[(j + ctx.seed) % len(creds)]))
    else:
        inter = [dict(path=p, cred=c) for p in pw_senders for c in creds]
    n_plain = len(cases)
    cases += inter
    recs = []
    for i, c in enumerate(cases):
        p = c["path"]
        other = next(x for x in creds[(i % len(creds)):] + creds if x["user"] != c["cred"]["user"] and x["pass"] != c["cred"]["pass"]
                     and len(x["pass"]) > 0)
        recs.append(dict(id=i, kind=p["kind"], allowed=p["allowed"], **{"class": p["class"]}, script=p["script"],
                         user=c["cred"]["user"], **{"pass": c["cred"]["pass"]},
                         child=(p["kind"] == "pw" and "challenge" in p["script"]),
                         inter=i >= n_plain, user2=other["user"], pass2=other["pass"]))
    cp, tp = os.path.join(ctx.tmp, "auth_cases.ndjson"), os.path.join(ctx.tmp, "auth_trace.ndjson")
    vf.write_ndjson(cp, recs)
    rc, out = vf.run_gotest(ctx, binary, "^TestVfC20Auth$", env={"VF_C20_CASES": cp, "VF_C20_TRACE": tp}, timeout=800)
    sm = re.search(r"^VFSUMMARY (.*)$", out, re.M)
    if not sm or "--- PASS" not in out:
        raise vf.Inconclusive("auth driver failed (a crash outside the child-process cases?):\n" + out[-3000:])
    summ = json.loads(sm.group(1))
    evs = vf.read_ndjson(tp)
    # regroup: per case, connections contiguous, result last
    bycase = collections.OrderedDict()
    for e in evs:
        bycase.setdefault(e["id"], []).append(e)
    if set(bycase) != set(range(len(recs))):
        raise vf.Inconclusive("auth driver did not run every case (%d of %d)" % (len(bycase), len(recs)))
    ordered = []
    for cid, l in bycase.items():
        head = [e for e in l if e["ev"] == "case"]
        res = [e for e in l if e["ev"] == "result"]
        if len(head) != 1 or len(res) != 1:
            raise vf.Inconclusive("case %d: %d case / %d result events" % (cid, len(head), len(res)))
        mid = [e for e in l if e["ev"] not in ("case", "result")]
        mid.sort(key=lambda e: e["c"])  # stable: order within a connection kept
        ordered += head + mid + res
    op = os.path.join(ctx.tmp, "auth_trace_ordered.ndjson")
    vf.write_ndjson(op, ordered)
    t = vf.run_tlc(ctx, "Trace_Auth", "Trace_Auth.cfg", workers=1, timeout=600, deadlock=False, env={"VF_TRACE": op})
    if not t.ok or t.distinct != len(ordered) + 1:
        raise vf.Inconclusive("Trace_Auth failed: %s\n%s" % (t.error or t.violated, t.out[-2000:]))
    mon = vf.tlc_printed(t.out, "MONVIOL")
    nviol = 0
    agg = collections.OrderedDict()
    for mv in mon:
        rec = recs[mv["id"]]
        ev = ordered[mv["line"] - 1]
        for kind in mv["kinds"]:
            if kind.startswith("drift-"):
                ctx.add_drift("auth case %s: %s at %s" % (_key({k: rec[k] for k in ("kind", "allowed", "class", "script")}), kind, _key(ev)))
                continue
            nviol += 1
            cls = "approved-list=%s" % ("default" if not rec["allowed"] else "custom")
            key = "auth-%s-%s-%s%s" % (kind, rec["kind"], cls, "-interleaved-handshakes" if rec.get("inter") else "")
            agg.setdefault(key, []).append(("%s: client %s allowed=%s, server class %r, script %s, event %s" % (
                kind, rec["kind"], rec["allowed"] or "default list", rec["class"], rec["script"], _key(ev)[:300]),
                dict(case=rec, events=bycase[mv["id"]])))
    # unit level, held-and-re-read: every ordered pair of different credential sets
    crp, hp = os.path.join(ctx.tmp, "auth_creds.ndjson"), os.path.join(ctx.tmp, "auth_held.ndjson")
    vf.write_ndjson(crp, [dict(user=c["user"], **{"pass": c["pass"]}) for c in creds])
    rc, hout = vf.run_gotest(ctx, binary, "^TestVfC20Held$", env={"VF_C20_CREDS": crp, "VF_C20_HELD": hp}, timeout=300)
    hm = re.search(r"^VFSUMMARY (.*)$", hout, re.M)
    if not hm or "--- PASS" not in hout:
        raise vf.Inconclusive("held-token driver failed:\n" + hout[-2000:])
    held = vf.read_ndjson(hp)
    th = vf.run_tlc(ctx, "Trace_Auth", "Trace_Auth.cfg", workers=1, timeout=600, deadlock=False, env={"VF_TRACE": hp}, name="auth_held")
    if not th.ok or th.distinct != len(held) + 1:
        raise vf.Inconclusive("Trace_Auth failed on the held tokens: %s\n%s" % (th.error or th.violated, th.out[-2000:]))
    nheld = json.loads(hm.group(1))["held_tokens"]
    for mv in vf.tlc_printed(th.out, "MONVIOL"):
        ev = held[mv["line"] - 1]
        case = next(e for e in held if e["id"] == mv["id"] and e["ev"] == "case")
        for kind in mv["kinds"]:
            if kind.startswith("drift-"):
                continue
            nviol += 1
            agg.setdefault("auth-%s-pw-%s" % (kind, case["via"]), []).append((
                "%s: the token PasswordAuthenticator.Challenge returned for user %s, re-read after ANOTHER authenticator's Challenge "
                "ran (%s), is %s" % (kind, case["user"], case["via"], _key(ev)[:300]), dict(case=case, event=ev)))
    # an AuthProvider with one authenticator PER HOST, two contact points demanding each other's approved class
    pp = os.path.join(ctx.tmp, "auth_perhost.ndjson")
    rc, pout = vf.run_gotest(ctx, binary, "^TestVfC20PerHost$", env={"VF_C20_PERHOST": pp}, timeout=300)
    pm = re.search(r"^VFSUMMARY (.*)$", pout, re.M)
    if not pm or "--- PASS" not in pout:
        raise vf.Inconclusive("per-host provider driver failed:\n" + pout[-2000:])
    perhost = vf.read_ndjson(pp)
    tp2 = vf.run_tlc(ctx, "Trace_Auth", "Trace_Auth.cfg", workers=1, timeout=600, deadlock=False, env={"VF_TRACE": pp}, name="auth_perhost")
    if not tp2.ok or tp2.distinct != len(perhost) + 1:
        raise vf.Inconclusive("Trace_Auth failed on the per-host provider sessions: %s\n%s" % (tp2.error or tp2.violated, tp2.out[-2000:]))
    ph = json.loads(pm.group(1))
    if ph["auth_responses"] == 0:
        raise vf.Inconclusive("the per-host provider sessions' control rounds sent no AUTH_RESPONSE: %s" % ph)
    for mv in vf.tlc_printed(tp2.out, "MONVIOL"):
        ev = perhost[mv["line"] - 1]
        case = next(e for e in perhost if e["id"] == mv["id"] and e["ev"] == "case")
        for kind in mv["kinds"]:
            if kind.startswith("drift-"):
                continue
            nviol += 1
            agg.setdefault("auth-%s-pw-%s" % (kind, case["via"]), []).append((
                "%s: AuthProvider returning one PasswordAuthenticator per host (this host's approves %s only): %s" % (
                    kind, case["allowed"], _key(ev)[:300]), dict(case=case, event=ev)))
    ctx.notes.append("per-host AuthProvider: %d two-contact-point sessions, %d AUTH_RESPONSE frames judged by Trace_Auth" % (ph["sessions"], ph["auth_responses"]))
    _flush(ctx, agg)
    _probe_auth(ctx, ordered, {mv["id"] for mv in mon})
    # replay comparison with the machine's outcome (outside the property: drift), and the known crash
    crashes, mism = [], []
    tokens = 0
    for i, rec in enumerate(recs):
        l = bycase[i]
        res = [e for e in l if e["ev"] == "result"][0]
        p = cases[i]["path"]
        if res["crash"]:
            crashes.append((rec, res))
            continue
        conns = sorted({e["c"] for e in l if "c" in e})
        nresp = [sum(1 for e in l if e["ev"] == "cli" and e["op"] == 15 and e.get("c") == c) for c in conns]
        tokens += sum(nresp)
        exp_session = p["outcome"] == "session"
        if res["session"] != exp_session or any(n != len(p["sent"]) for n in nresp) or (res["session"] and res["query"]):
            mism.append((rec, res, nresp))
    for rec, res in crashes:
        if rec["kind"] == "pw" and "challenge" in rec["script"] and "conn.go" in res["query"]:
            continue
        raise vf.Inconclusive("unexpected crash of the driver in auth case %s: %s %s" % (_key(rec), res["err"], res["query"]))
    if crashes:
        ctx.notes.append("not a C20 matter (property C05, DESIGN.md section 9): AUTH_CHALLENGE answered to PasswordAuthenticator "
                         "crashed the child process in %d cases, e.g. %s %s" % (len(crashes), crashes[0][1]["err"], crashes[0][1]["query"]))
    if mism:
        rec, res, nresp = mism[0]
        ctx.add_drift("%d auth behaviours ended differently from the machine (not a property matter), e.g. %s -> session=%s err=%s "
                      "auth responses per connection=%s" % (len(mism), _key({k: rec[k] for k in ("kind", "allowed", "class", "script")}),
                                                            res["session"], res["err"], nresp))
    ctx.log("auth machine: %d behaviours x credentials = %d sessions, %d AUTH_RESPONSE frames seen, %d crashes (C05), "
            "%d property violations" % (len(paths), len(recs), tokens, len(crashes), nviol))
    sample_i = next((i for i, r in enumerate(recs) if r["kind"] == "pw" and r["script"] == ["authenticate", "success"]
                     and any(x > 127 for x in r["user"]) and 0 < len(r["pass"]) < 20), 0)
    return dict(states=m.distinct + t.distinct + th.distinct, transitions=m.generated + t.generated + th.generated,
                interleaved_sessions=len(inter), held_tokens=nheld, behaviours=len(paths), sessions=len(recs),
                credential_pairs=len(creds), auth_responses=tokens, crashes_c05=len(crashes), trace_events=len(ordered),
                sample=dict(kind="auth-behaviour", case=recs[sample_i], events=bycase[sample_i][:12]))


def run(ctx):
    ctx.level = "model_checking"
    binary = vf.build_gotest(ctx, ".", ["common", "c20"])
    tls = tls_part(ctx, binary)
    auth = auth_part(ctx, binary)
    ctx.cov = dict(
        states=tls["states"] + auth["states"], transitions=tls["transitions"] + auth["transitions"],
        traces_validated_against_impl=tls["executions"] + auth["sessions"],
        exhaustive=True,
        tls_rows=tls["rows"], tls_row_executions=tls["executions"], tls_rows_error_required=tls["rows_with_error_required"], tls_real_handshakes=tls["handshakes"],
        auth_behaviours=auth["behaviours"], auth_sessions=auth["sessions"], auth_interleaved_sessions=auth["interleaved_sessions"],
        auth_held_and_reread_tokens=auth["held_tokens"], auth_credential_pairs=auth["credential_pairs"],
        auth_responses_captured=auth["auth_responses"], auth_trace_events=auth["trace_events"],
        auth_child_crashes_c05=auth["crashes_c05"],
        samples=[tls["sample"], auth["sample"]],
    )
    ctx.assumptions += [
        "crypto/tls and crypto/x509 are trusted for chain building and host-name matching; the check decides which "
        "configuration (InsecureSkipVerify, ServerName, roots) reaches tls.Client and confirms it with real handshakes",
        "the approved-authenticator default list is data taken from conn.go (the property calls it 'the built-in default')",
        "an IPv6 literal in square brackets is accepted as a spelling of that host (crypto/tls strips the brackets)",
        "AUTH_CHALLENGE sent to PasswordAuthenticator kills the process (property C05, run in a child process, not judged here)",
    ]
